// tabfacts: parse Rust source files with syn and dump a labelled JSON syntax tree.
// usage: tabfacts <file.rs>...   -> one JSON object {file: tree} on stdout
use proc_macro2::{Delimiter, TokenStream, TokenTree};
use quote::ToTokens;
use serde_json::{json, Value};
use syn::punctuated::Punctuated;
use syn::spanned::Spanned;
use syn::*;

fn ln<T: Spanned>(t: &T) -> usize {
    t.span().start().line
}
fn ts<T: ToTokens>(t: &T) -> String {
    t.to_token_stream().to_string()
}
fn path_str(p: &Path) -> String {
    p.segments.iter().map(|s| s.ident.to_string()).collect::<Vec<_>>().join("::")
}
fn tokens(t: TokenStream) -> Value {
    let mut v = vec![];
    for tt in t {
        match tt {
            TokenTree::Ident(i) => v.push(json!({"i": i.to_string(), "l": i.span().start().line})),
            TokenTree::Punct(p) => v.push(json!({"p": p.as_char().to_string(), "j": p.spacing() == proc_macro2::Spacing::Joint})),
            TokenTree::Literal(l) => v.push(json!({"lit": l.to_string(), "l": l.span().start().line})),
            TokenTree::Group(g) => {
                let d = match g.delimiter() {
                    Delimiter::Parenthesis => "(",
                    Delimiter::Brace => "{",
                    Delimiter::Bracket => "[",
                    Delimiter::None => "",
                };
                v.push(json!({"g": d, "t": tokens(g.stream()), "l": g.span().start().line}));
            }
        }
    }
    Value::Array(v)
}
fn lit(l: &Lit) -> Value {
    match l {
        Lit::Str(s) => json!({"k":"Lit","t":"str","v":s.value(),"l":ln(l)}),
        Lit::Int(i) => json!({"k":"Lit","t":"int","v":i.base10_digits(),"suffix":i.suffix(),"l":ln(l)}),
        Lit::Bool(b) => json!({"k":"Lit","t":"bool","v":b.value,"l":ln(l)}),
        Lit::Char(c) => json!({"k":"Lit","t":"char","v":c.value().to_string(),"l":ln(l)}),
        Lit::ByteStr(_) => json!({"k":"Lit","t":"bytestr","v":ts(l),"l":ln(l)}),
        Lit::Byte(b) => json!({"k":"Lit","t":"byte","v":b.value(),"l":ln(l)}),
        _ => json!({"k":"Lit","t":"other","v":ts(l),"l":ln(l)}),
    }
}
fn member(m: &Member) -> String {
    match m {
        Member::Named(i) => i.to_string(),
        Member::Unnamed(i) => i.index.to_string(),
    }
}
fn pat(p: &Pat) -> Value {
    match p {
        Pat::Ident(i) => json!({"k":"PIdent","name":i.ident.to_string(),"by_ref":i.by_ref.is_some(),"mut":i.mutability.is_some(),
            "sub": i.subpat.as_ref().map(|(_, p)| pat(p)),"l":ln(p)}),
        Pat::Wild(_) => json!({"k":"PWild","l":ln(p)}),
        Pat::Rest(_) => json!({"k":"PRest","l":ln(p)}),
        Pat::Path(x) => json!({"k":"PPath","path":path_str(&x.path),"l":ln(p)}),
        Pat::Lit(x) => json!({"k":"PLit","lit":lit(&x.lit),"l":ln(p)}),
        Pat::Or(x) => json!({"k":"POr","cases":x.cases.iter().map(pat).collect::<Vec<_>>(),"l":ln(p)}),
        Pat::Paren(x) => pat(&x.pat),
        Pat::Reference(x) => json!({"k":"PRef","pat":pat(&x.pat),"l":ln(p)}),
        Pat::Tuple(x) => json!({"k":"PTuple","elems":x.elems.iter().map(pat).collect::<Vec<_>>(),"l":ln(p)}),
        Pat::Slice(x) => json!({"k":"PSlice","elems":x.elems.iter().map(pat).collect::<Vec<_>>(),"l":ln(p)}),
        Pat::TupleStruct(x) => json!({"k":"PTupleStruct","path":path_str(&x.path),"elems":x.elems.iter().map(pat).collect::<Vec<_>>(),"l":ln(p)}),
        Pat::Struct(x) => json!({"k":"PStruct","path":path_str(&x.path),"rest":x.rest.is_some(),
            "fields":x.fields.iter().map(|f| json!({"name":member(&f.member),"shorthand":f.colon_token.is_none(),"pat":pat(&f.pat)})).collect::<Vec<_>>(),"l":ln(p)}),
        Pat::Range(x) => json!({"k":"PRange","start":x.start.as_ref().map(|e| expr(e)),"end":x.end.as_ref().map(|e| expr(e)),"l":ln(p)}),
        Pat::Type(x) => pat(&x.pat),
        Pat::Macro(x) => mac(&x.mac),
        Pat::Const(x) => json!({"k":"PConst","t":ts(x),"l":ln(p)}),
        _ => json!({"k":"POther","t":ts(p),"l":ln(p)}),
    }
}
fn block(b: &Block) -> Value {
    json!({"k":"Block","stmts":b.stmts.iter().map(stmt).collect::<Vec<_>>(),"l":ln(b)})
}
fn stmt(s: &Stmt) -> Value {
    match s {
        Stmt::Local(l) => json!({"k":"Let","pat":pat(&l.pat),
            "init":l.init.as_ref().map(|i| expr(&i.expr)),
            "else":l.init.as_ref().and_then(|i| i.diverge.as_ref().map(|(_, e)| expr(e))),"l":ln(s)}),
        Stmt::Item(i) => item(i),
        Stmt::Expr(e, semi) => {
            let mut v = expr(e);
            if semi.is_some() {
                v["semi"] = json!(true);
            }
            v
        }
        Stmt::Macro(m) => {
            let mut v = mac(&m.mac);
            v["semi"] = json!(m.semi_token.is_some());
            v
        }
    }
}
fn mac(m: &Macro) -> Value {
    let name = path_str(&m.path);
    let mut v = json!({"k":"Macro","name":name,"l":ln(m)});
    // expression-list macros: parse the arguments as comma separated expressions when possible
    let is_matches = name == "matches" || name.ends_with("::matches");
    if !is_matches {
        if let Ok(args) = m.parse_body_with(Punctuated::<Expr, Token![,]>::parse_terminated) {
            v["args"] = Value::Array(args.iter().map(expr).collect());
        }
    }
    if is_matches {
        // matches!(expr, pat (if guard)?)
        if let Ok((e, p, g)) = m.parse_body_with(|input: parse::ParseStream| {
            let e: Expr = input.parse()?;
            input.parse::<Token![,]>()?;
            let p = Pat::parse_multi_with_leading_vert(input)?;
            let g = if input.peek(Token![if]) {
                input.parse::<Token![if]>()?;
                Some(input.parse::<Expr>()?)
            } else {
                None
            };
            let _ = input.parse::<Option<Token![,]>>();
            Ok((e, p, g))
        }) {
            v["matches"] = json!({"expr":expr(&e),"pat":pat(&p),"guard":g.as_ref().map(expr)});
        }
    }
    if v.get("args").is_none() && v.get("matches").is_none() {
        v["tokens"] = tokens(m.tokens.clone());
    }
    v
}
fn expr(e: &Expr) -> Value {
    match e {
        Expr::Match(m) => json!({"k":"Match","expr":expr(&m.expr),"l":ln(e),
            "arms":m.arms.iter().map(|a| json!({"pat":pat(&a.pat),"guard":a.guard.as_ref().map(|(_, g)| expr(g)),"body":expr(&a.body),"l":ln(a),"end":a.body.span().end().line})).collect::<Vec<_>>()}),
        Expr::MethodCall(m) => json!({"k":"MethodCall","recv":expr(&m.receiver),"method":m.method.to_string(),
            "turbofish":m.turbofish.as_ref().map(|t| ts(t)),"args":m.args.iter().map(expr).collect::<Vec<_>>(),"l":ln(&m.method)}),
        Expr::Call(c) => json!({"k":"Call","func":expr(&c.func),"args":c.args.iter().map(expr).collect::<Vec<_>>(),"l":ln(e)}),
        Expr::Path(p) => json!({"k":"Path","path":path_str(&p.path),"l":ln(e),
            "generics": p.path.segments.iter().any(|s| !s.arguments.is_none()).then(|| ts(&p.path))}),
        Expr::Lit(l) => lit(&l.lit),
        Expr::Macro(m) => mac(&m.mac),
        Expr::Binary(b) => json!({"k":"Binary","op":ts(&b.op),"left":expr(&b.left),"right":expr(&b.right),"l":ln(e)}),
        Expr::Unary(u) => json!({"k":"Unary","op":ts(&u.op),"expr":expr(&u.expr),"l":ln(e)}),
        Expr::Field(f) => json!({"k":"Field","base":expr(&f.base),"member":member(&f.member),"l":ln(e)}),
        Expr::Struct(s) => json!({"k":"Struct","path":path_str(&s.path),"rest":s.rest.as_ref().map(|r| expr(r)),"dotdot":s.dot2_token.is_some(),
            "fields":s.fields.iter().map(|f| json!({"name":member(&f.member),"shorthand":f.colon_token.is_none(),"expr":expr(&f.expr)})).collect::<Vec<_>>(),"l":ln(e)}),
        Expr::Tuple(t) => json!({"k":"Tuple","elems":t.elems.iter().map(expr).collect::<Vec<_>>(),"l":ln(e)}),
        Expr::Array(t) => json!({"k":"Array","elems":t.elems.iter().map(expr).collect::<Vec<_>>(),"l":ln(e)}),
        Expr::Repeat(r) => json!({"k":"Repeat","expr":expr(&r.expr),"len":expr(&r.len),"l":ln(e)}),
        Expr::Block(b) => block(&b.block),
        Expr::Unsafe(b) => block(&b.block),
        Expr::Async(b) => json!({"k":"Async","body":block(&b.block),"l":ln(e)}),
        Expr::Await(a) => json!({"k":"Await","expr":expr(&a.base),"l":ln(e)}),
        Expr::If(i) => json!({"k":"If","cond":expr(&i.cond),"then":block(&i.then_branch),"else":i.else_branch.as_ref().map(|(_, e)| expr(e)),"l":ln(e)}),
        Expr::Let(l) => json!({"k":"LetCond","pat":pat(&l.pat),"expr":expr(&l.expr),"l":ln(e)}),
        Expr::Closure(c) => json!({"k":"Closure","inputs":c.inputs.iter().map(pat).collect::<Vec<_>>(),"body":expr(&c.body),"move":c.capture.is_some(),"l":ln(e)}),
        Expr::Reference(r) => json!({"k":"Ref","mut":r.mutability.is_some(),"expr":expr(&r.expr),"l":ln(e)}),
        Expr::Paren(p) => expr(&p.expr),
        Expr::Group(p) => expr(&p.expr),
        Expr::Return(r) => json!({"k":"Return","expr":r.expr.as_ref().map(|e| expr(e)),"l":ln(e)}),
        Expr::Break(r) => json!({"k":"Break","expr":r.expr.as_ref().map(|e| expr(e)),"l":ln(e)}),
        Expr::Continue(_) => json!({"k":"Continue","l":ln(e)}),
        Expr::Try(t) => json!({"k":"Try","expr":expr(&t.expr),"l":ln(e)}),
        Expr::ForLoop(f) => json!({"k":"For","pat":pat(&f.pat),"iter":expr(&f.expr),"body":block(&f.body),"l":ln(e)}),
        Expr::While(w) => json!({"k":"While","cond":expr(&w.cond),"body":block(&w.body),"l":ln(e)}),
        Expr::Loop(w) => json!({"k":"Loop","body":block(&w.body),"l":ln(e)}),
        Expr::Index(i) => json!({"k":"Index","base":expr(&i.expr),"index":expr(&i.index),"l":ln(e)}),
        Expr::Assign(a) => json!({"k":"Assign","left":expr(&a.left),"right":expr(&a.right),"l":ln(e)}),
        Expr::Range(r) => json!({"k":"Range","start":r.start.as_ref().map(|e| expr(e)),"end":r.end.as_ref().map(|e| expr(e)),"limits":ts(&r.limits),"l":ln(e)}),
        Expr::Cast(c) => json!({"k":"Cast","expr":expr(&c.expr),"ty":ts(&c.ty),"l":ln(e)}),
        _ => json!({"k":"Other","t":ts(e),"l":ln(e)}),
    }
}
fn fields(f: &Fields) -> Value {
    Value::Array(
        f.iter()
            .enumerate()
            .map(|(i, fd)| json!({"name":fd.ident.as_ref().map(|x| x.to_string()).unwrap_or(i.to_string()),"ty":ts(&fd.ty),
                "pub":matches!(fd.vis, Visibility::Public(_)),"vis":ts(&fd.vis),"l":ln(fd)}))
            .collect(),
    )
}
fn attrs(a: &[Attribute]) -> Value {
    Value::Array(a.iter().map(|x| Value::String(ts(&x.meta))).collect())
}
fn sig(s: &Signature) -> Value {
    json!({"name":s.ident.to_string(),"async":s.asyncness.is_some(),
        "inputs":s.inputs.iter().map(|a| match a { FnArg::Receiver(r) => json!({"self":true,"mut":r.mutability.is_some(),"ref":r.reference.is_some()}),
            FnArg::Typed(t) => json!({"pat":pat(&t.pat),"ty":ts(&t.ty)}) }).collect::<Vec<_>>(),
        "ret": match &s.output { ReturnType::Default => Value::Null, ReturnType::Type(_, t) => Value::String(ts(t)) }})
}
fn item(i: &Item) -> Value {
    match i {
        Item::Fn(f) => json!({"k":"Fn","sig":sig(&f.sig),"name":f.sig.ident.to_string(),"pub":matches!(f.vis, Visibility::Public(_)),"attrs":attrs(&f.attrs),"body":block(&f.block),"l":ln(&f.sig.ident),"end":f.block.span().end().line}),
        Item::Impl(im) => json!({"k":"Impl","self_ty":ts(&im.self_ty),"trait":im.trait_.as_ref().map(|(_, p, _)| ts(p)),"attrs":attrs(&im.attrs),"l":ln(i),
            "items":im.items.iter().map(|it| match it {
                ImplItem::Fn(f) => json!({"k":"Fn","sig":sig(&f.sig),"name":f.sig.ident.to_string(),"pub":matches!(f.vis, Visibility::Public(_)),"attrs":attrs(&f.attrs),"body":block(&f.block),"l":ln(&f.sig.ident),"end":f.block.span().end().line}),
                ImplItem::Const(c) => json!({"k":"Const","name":c.ident.to_string(),"ty":ts(&c.ty),"expr":expr(&c.expr),"l":ln(it)}),
                ImplItem::Type(t) => json!({"k":"TypeAlias","name":t.ident.to_string(),"ty":ts(&t.ty),"l":ln(it)}),
                _ => json!({"k":"OtherItem","l":ln(it)}),
            }).collect::<Vec<_>>()}),
        Item::Enum(e) => json!({"k":"Enum","name":e.ident.to_string(),"attrs":attrs(&e.attrs),"l":ln(i),
            "variants":e.variants.iter().map(|v| json!({"name":v.ident.to_string(),"fields":fields(&v.fields),
                "named":matches!(v.fields, Fields::Named(_)),"unit":matches!(v.fields, Fields::Unit),"attrs":attrs(&v.attrs),"l":ln(v),
                "discriminant": v.discriminant.as_ref().map(|(_, e)| expr(e))})).collect::<Vec<_>>()}),
        Item::Struct(s) => json!({"k":"StructDef","name":s.ident.to_string(),"attrs":attrs(&s.attrs),"fields":fields(&s.fields),"named":matches!(s.fields, Fields::Named(_)),"l":ln(i)}),
        Item::Const(c) => json!({"k":"Const","name":c.ident.to_string(),"ty":ts(&c.ty),"expr":expr(&c.expr),"pub":matches!(c.vis, Visibility::Public(_)),"l":ln(i)}),
        Item::Static(c) => json!({"k":"Static","name":c.ident.to_string(),"ty":ts(&c.ty),"expr":expr(&c.expr),"l":ln(i)}),
        Item::Mod(m) => json!({"k":"Mod","name":m.ident.to_string(),"attrs":attrs(&m.attrs),"l":ln(i),
            "items":m.content.as_ref().map(|(_, its)| its.iter().map(item).collect::<Vec<_>>())}),
        Item::Macro(m) => {
            let mut v = mac(&m.mac);
            v["ident"] = json!(m.ident.as_ref().map(|x| x.to_string()));
            v["tokens"] = tokens(m.mac.tokens.clone());
            v
        }
        Item::Trait(t) => json!({"k":"Trait","name":t.ident.to_string(),"l":ln(i),
            "items":t.items.iter().map(|it| match it {
                TraitItem::Fn(f) => json!({"k":"Fn","sig":sig(&f.sig),"name":f.sig.ident.to_string(),"body":f.default.as_ref().map(block),"l":ln(&f.sig.ident)}),
                _ => json!({"k":"OtherItem","l":ln(it)}),
            }).collect::<Vec<_>>()}),
        Item::Use(u) => json!({"k":"Use","t":ts(&u.tree),"l":ln(i)}),
        Item::Type(t) => json!({"k":"TypeAlias","name":t.ident.to_string(),"ty":ts(&t.ty),"l":ln(i)}),
        _ => json!({"k":"OtherItem","l":ln(i)}),
    }
}
fn main() {
    let mut out = serde_json::Map::new();
    for f in std::env::args().skip(1) {
        let src = match std::fs::read_to_string(&f) {
            Ok(s) => s,
            Err(e) => {
                eprintln!("tabfacts: cannot read {f}: {e}");
                std::process::exit(2);
            }
        };
        match syn::parse_file(&src) {
            Ok(file) => {
                out.insert(f.clone(), json!({"items": file.items.iter().map(item).collect::<Vec<_>>(), "attrs": attrs(&file.attrs)}));
            }
            Err(e) => {
                eprintln!("tabfacts: parse error in {f}: {e}");
                std::process::exit(2);
            }
        }
    }
    println!("{}", Value::Object(out));
}
