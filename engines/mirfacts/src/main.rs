// mirfacts: rustc_private driver. Dumps per-function MIR facts (one JSON object per
// line) for the crate being compiled into $VERIF_FACTS_DIR/<crate>.jsonl.
// Injected through RUSTC_WORKSPACE_WRAPPER, so it sees exactly the flags of the real build.
#![feature(rustc_private)]
extern crate rustc_abi;
extern crate rustc_driver;
extern crate rustc_hir;
extern crate rustc_interface;
extern crate rustc_middle;
extern crate rustc_span;

use rustc_driver::Compilation;
use rustc_hir::def::DefKind;
use rustc_hir::def_id::{DefId, LOCAL_CRATE};
use rustc_middle::mir::{
    AggregateKind, Body, Operand, Place, ProjectionElem, Rvalue, StatementKind, TerminatorKind,
    PlaceTy,
};
use rustc_middle::ty::{self, Instance, Ty, TyCtxt};
use rustc_span::Span;
use std::fmt::Write as _;
use std::io::Write as _;

fn esc(s: &str, out: &mut String) {
    out.push('"');
    for c in s.chars() {
        match c {
            '"' => out.push_str("\\\""),
            '\\' => out.push_str("\\\\"),
            '\n' => out.push_str("\\n"),
            '\r' => out.push_str("\\r"),
            '\t' => out.push_str("\\t"),
            c if (c as u32) < 0x20 => {
                let _ = write!(out, "\\u{:04x}", c as u32);
            }
            c => out.push(c),
        }
    }
    out.push('"');
}
fn trunc(mut s: String, n: usize) -> String {
    if s.len() > n {
        let mut i = n;
        while !s.is_char_boundary(i) {
            i -= 1;
        }
        s.truncate(i);
        s.push('…');
    }
    s
}

struct Cx<'tcx> {
    tcx: TyCtxt<'tcx>,
}

impl<'tcx> Cx<'tcx> {
    fn id(&self, did: DefId) -> String {
        format!(
            "{}{}",
            self.tcx.crate_name(did.krate),
            self.tcx.def_path(did).to_string_no_crate_verbose()
        )
    }
    fn name(&self, did: DefId) -> String {
        ty::print::with_no_visible_paths!(ty::print::with_no_trimmed_paths!(
            ty::print::with_resolve_crate_name!(self.tcx.def_path_str(did))
        ))
    }
    fn name_args(&self, did: DefId, args: ty::GenericArgsRef<'tcx>) -> String {
        trunc(
            ty::print::with_no_visible_paths!(ty::print::with_no_trimmed_paths!(
                ty::print::with_resolve_crate_name!(self.tcx.def_path_str_with_args(did, args))
            )),
            700,
        )
    }
    fn ty_str(&self, t: Ty<'tcx>) -> String {
        trunc(
            ty::print::with_no_visible_paths!(ty::print::with_no_trimmed_paths!(
                ty::print::with_resolve_crate_name!(format!("{}", t))
            )),
            300,
        )
    }
    fn line(&self, sp: Span) -> (String, usize, usize) {
        let sp = if sp.from_expansion() { sp.source_callsite() } else { sp };
        let sm = self.tcx.sess.source_map();
        let loc = sm.lookup_char_pos(sp.lo());
        let f = match &loc.file.name {
            rustc_span::FileName::Real(r) => {
                r.local_path().map(|p| p.display().to_string()).unwrap_or_else(|| format!("{:?}", r))
            }
            o => format!("{:?}", o),
        };
        (f, loc.line, loc.col.0 + 1)
    }

    fn place(&self, body: &Body<'tcx>, p: &Place<'tcx>, out: &mut String) {
        let _ = write!(out, "{{\"l\":{}", p.local.as_usize());
        if !p.projection.is_empty() {
            out.push_str(",\"p\":[");
            let mut pty = PlaceTy::from_ty(body.local_decls[p.local].ty);
            let mut first = true;
            for elem in p.projection.iter() {
                if !first {
                    out.push(',');
                }
                first = false;
                match elem {
                    ProjectionElem::Deref => out.push_str("\"*\""),
                    ProjectionElem::Field(f, _) => {
                        let mut done = false;
                        if let ty::Adt(adt, _) = pty.ty.kind() {
                            let vidx = pty.variant_index.unwrap_or(rustc_abi::FIRST_VARIANT);
                            if vidx.as_usize() < adt.variants().len() {
                                let v = adt.variant(vidx);
                                if f.as_usize() < v.fields.len() {
                                    out.push_str("[\"f\",");
                                    esc(&self.name(adt.did()), out);
                                    out.push(',');
                                    esc(v.name.as_str(), out);
                                    out.push(',');
                                    esc(v.fields[f].name.as_str(), out);
                                    out.push(']');
                                    done = true;
                                }
                            }
                        }
                        if !done {
                            let _ = write!(out, "[\"f\",\"\",\"\",\"{}\"]", f.as_usize());
                        }
                    }
                    ProjectionElem::Index(l) => {
                        let _ = write!(out, "[\"i\",{}]", l.as_usize());
                    }
                    ProjectionElem::ConstantIndex { offset, from_end, .. } => {
                        let _ = write!(out, "[\"ci\",{},{}]", offset, from_end);
                    }
                    ProjectionElem::Subslice { .. } => out.push_str("\"sub\""),
                    ProjectionElem::Downcast(sym, _) => {
                        out.push_str("[\"dc\",");
                        esc(sym.map(|s| s.to_string()).unwrap_or_default().as_str(), out);
                        out.push(']');
                    }
                    _ => out.push_str("\"?\""),
                }
                pty = pty.projection_ty(self.tcx, elem);
            }
            out.push(']');
        }
        out.push('}');
    }

    fn operand(&self, body: &Body<'tcx>, o: &Operand<'tcx>, out: &mut String) {
        match o {
            Operand::Copy(p) | Operand::Move(p) => self.place(body, p, out),
            Operand::Constant(c) => {
                let t = c.const_.ty();
                out.push_str("{\"c\":");
                if let ty::FnDef(d, a) = t.kind() {
                    esc(&self.name_args(*d, a), out);
                    out.push_str(",\"fn\":");
                    esc(&self.id(*d), out);
                    if let Some(r) = self.resolve(body, *d, a) {
                        out.push_str(",\"rfn\":");
                        esc(&self.id(r), out);
                    }
                } else if let ty::Closure(d, _) = t.kind() {
                    esc("closure", out);
                    out.push_str(",\"fn\":");
                    esc(&self.id(*d), out);
                } else {
                    let s = ty::print::with_no_trimmed_paths!(format!("{}", c.const_));
                    esc(&trunc(s, 120), out);
                    out.push_str(",\"ty\":");
                    esc(&self.ty_str(t), out);
                }
                out.push('}');
            }
            #[allow(unreachable_patterns)]
            _ => out.push_str("{\"c\":\"?rt\"}"),
        }
    }

    fn resolve(&self, body: &Body<'tcx>, d: DefId, a: ty::GenericArgsRef<'tcx>) -> Option<DefId> {
        if !matches!(self.tcx.def_kind(d), DefKind::Fn | DefKind::AssocFn) {
            return None;
        }
        let env = ty::TypingEnv::post_analysis(self.tcx, body.source.def_id());
        let a = self.tcx.try_normalize_erasing_regions(env, ty::Unnormalized::new_wip(a)).ok()?;
        match Instance::try_resolve(self.tcx, env, d, a) {
            Ok(Some(inst)) => match inst.def {
                ty::InstanceKind::Item(r) => Some(r),
                _ => None,
            },
            _ => None,
        }
    }

    fn rvalue(&self, body: &Body<'tcx>, rv: &Rvalue<'tcx>, out: &mut String) {
        match rv {
            Rvalue::Use(o, ..) => {
                out.push_str("{\"k\":\"use\",\"o\":[");
                self.operand(body, o, out);
                out.push_str("]}");
            }
            Rvalue::Repeat(o, _) => {
                out.push_str("{\"k\":\"repeat\",\"o\":[");
                self.operand(body, o, out);
                out.push_str("]}");
            }
            Rvalue::Ref(_, bk, p) => {
                let m = matches!(bk, rustc_middle::mir::BorrowKind::Mut { .. });
                let _ = write!(out, "{{\"k\":\"ref\",\"m\":{},\"o\":[", m);
                self.place(body, p, out);
                out.push_str("]}");
            }
            Rvalue::RawPtr(_, p) => {
                out.push_str("{\"k\":\"rawptr\",\"o\":[");
                self.place(body, p, out);
                out.push_str("]}");
            }
            Rvalue::CopyForDeref(p) => {
                out.push_str("{\"k\":\"use\",\"o\":[");
                self.place(body, p, out);
                out.push_str("]}");
            }
            Rvalue::Discriminant(p) => {
                out.push_str("{\"k\":\"disc\",\"o\":[");
                self.place(body, p, out);
                out.push_str("]}");
            }
            Rvalue::Cast(ck, o, t) => {
                out.push_str("{\"k\":\"cast\",\"ck\":");
                esc(&trunc(format!("{:?}", ck), 60), out);
                out.push_str(",\"ty\":");
                esc(&self.ty_str(*t), out);
                out.push_str(",\"o\":[");
                self.operand(body, o, out);
                out.push_str("]}");
            }
            Rvalue::BinaryOp(op, ops) => {
                let t = ops.0.ty(&body.local_decls, self.tcx);
                out.push_str("{\"k\":\"bin\",\"op\":");
                esc(&format!("{:?}", op), out);
                out.push_str(",\"ty\":");
                esc(&self.ty_str(t), out);
                out.push_str(",\"o\":[");
                self.operand(body, &ops.0, out);
                out.push(',');
                self.operand(body, &ops.1, out);
                out.push_str("]}");
            }
            Rvalue::UnaryOp(op, o) => {
                let t = o.ty(&body.local_decls, self.tcx);
                out.push_str("{\"k\":\"un\",\"op\":");
                esc(&format!("{:?}", op), out);
                out.push_str(",\"ty\":");
                esc(&self.ty_str(t), out);
                out.push_str(",\"o\":[");
                self.operand(body, o, out);
                out.push_str("]}");
            }
            Rvalue::Aggregate(ak, ops) => {
                out.push_str("{\"k\":\"agg\"");
                match &**ak {
                    AggregateKind::Adt(d, v, _, _, _) => {
                        let adt = self.tcx.adt_def(*d);
                        out.push_str(",\"adt\":");
                        esc(&self.name(*d), out);
                        out.push_str(",\"var\":");
                        esc(adt.variant(*v).name.as_str(), out);
                        out.push_str(",\"fields\":[");
                        for (i, f) in adt.variant(*v).fields.iter().enumerate() {
                            if i > 0 {
                                out.push(',');
                            }
                            esc(f.name.as_str(), out);
                        }
                        out.push(']');
                    }
                    AggregateKind::Closure(d, _)
                    | AggregateKind::Coroutine(d, _)
                    | AggregateKind::CoroutineClosure(d, _) => {
                        out.push_str(",\"closure\":");
                        esc(&self.id(*d), out);
                    }
                    AggregateKind::Tuple => out.push_str(",\"adt\":\"(tuple)\""),
                    AggregateKind::Array(_) => out.push_str(",\"adt\":\"[array]\""),
                    AggregateKind::RawPtr(..) => out.push_str(",\"adt\":\"*rawptr\""),
                }
                out.push_str(",\"o\":[");
                for (i, o) in ops.iter().enumerate() {
                    if i > 0 {
                        out.push(',');
                    }
                    self.operand(body, o, out);
                }
                out.push_str("]}");
            }
            Rvalue::ThreadLocalRef(d) => {
                out.push_str("{\"k\":\"tls\",\"id\":");
                esc(&self.id(*d), out);
                out.push_str(",\"o\":[]}");
            }
            _ => out.push_str("{\"k\":\"other\",\"o\":[]}"),
        }
    }

    fn function(&self, did: DefId, out: &mut String) {
        let tcx = self.tcx;
        let kind = tcx.def_kind(did);
        let body = tcx.optimized_mir(did);
        let (file, lo, _) = self.line(body.span.shrink_to_lo());
        let (_, hi, _) = self.line(body.span.shrink_to_hi());
        out.push_str("{\"id\":");
        esc(&self.id(did), out);
        out.push_str(",\"name\":");
        esc(&self.name(did), out);
        out.push_str(",\"crate\":");
        esc(tcx.crate_name(LOCAL_CRATE).as_str(), out);
        let k = match kind {
            DefKind::Fn => "fn",
            DefKind::AssocFn => "assoc",
            DefKind::Closure => "closure",
            _ => "other",
        };
        let _ = write!(out, ",\"kind\":\"{}\"", k);
        if kind == DefKind::Closure {
            out.push_str(",\"parent\":");
            esc(&self.id(tcx.parent(did)), out);
            out.push_str(",\"root\":");
            esc(&self.id(tcx.typeck_root_def_id(did)), out);
            if tcx.coroutine_kind(did).is_some() {
                out.push_str(",\"coroutine\":true");
            }
        }
        if kind == DefKind::AssocFn {
            if let Some(ti) = tcx.opt_associated_item(did).and_then(|a| a.trait_item_def_id()) {
                out.push_str(",\"impl_of\":");
                esc(&self.id(ti), out);
            }
            let parent = tcx.parent(did);
            if matches!(tcx.def_kind(parent), DefKind::Impl { .. }) {
                let st = tcx.type_of(parent).instantiate_identity().skip_norm_wip();
                out.push_str(",\"self_ty\":");
                esc(&self.ty_str(st), out);
            } else if tcx.def_kind(parent) == DefKind::Trait {
                out.push_str(",\"trait_default\":true");
            }
        }
        if matches!(kind, DefKind::Fn | DefKind::AssocFn) {
            let vis = tcx.visibility(did);
            let _ = write!(out, ",\"pub\":{}", vis.is_public());
        }
        out.push_str(",\"file\":");
        esc(&file, out);
        let _ = write!(
            out,
            ",\"lo\":{},\"hi\":{},\"exp\":{},\"nargs\":{}",
            lo,
            hi,
            tcx.def_span(did).from_expansion(),
            body.arg_count
        );
        out.push_str(",\"locals\":[");
        for (i, d) in body.local_decls.iter().enumerate() {
            if i > 0 {
                out.push(',');
            }
            esc(&self.ty_str(d.ty), out);
        }
        out.push_str("],\"vars\":{");
        let mut first = true;
        for vdi in &body.var_debug_info {
            if let rustc_middle::mir::VarDebugInfoContents::Place(p) = &vdi.value {
                if p.projection.is_empty() {
                    if !first {
                        out.push(',');
                    }
                    first = false;
                    let _ = write!(out, "\"{}\":", p.local.as_usize());
                    esc(vdi.name.as_str(), out);
                }
            }
        }
        // closure upvars: name -> field index of the closure environment (local 1)
        out.push_str("},\"upvars\":{");
        let mut first = true;
        for vdi in &body.var_debug_info {
            if let rustc_middle::mir::VarDebugInfoContents::Place(p) = &vdi.value {
                if p.local.as_usize() == 1 && !p.projection.is_empty() {
                    for e in p.projection.iter() {
                        if let ProjectionElem::Field(f, _) = e {
                            if !first {
                                out.push(',');
                            }
                            first = false;
                            let _ = write!(out, "\"{}\":", f.as_usize());
                            esc(vdi.name.as_str(), out);
                            break;
                        }
                    }
                }
            }
        }
        out.push_str("},\"promoted\":[");
        for (pi, pb) in tcx.promoted_mir(did).iter().enumerate() {
            if pi > 0 {
                out.push(',');
            }
            out.push('[');
            let mut first = true;
            for bb in pb.basic_blocks.iter() {
                for st in &bb.statements {
                    if let StatementKind::Assign(b) = &st.kind {
                        let (p, rv) = &**b;
                        if !first {
                            out.push(',');
                        }
                        first = false;
                        out.push_str("{\"d\":");
                        self.place(pb, p, out);
                        out.push_str(",\"r\":");
                        self.rvalue(pb, rv, out);
                        out.push('}');
                    }
                }
            }
            out.push(']');
        }
        out.push_str("],\"bbs\":[");
        for (bi, bb) in body.basic_blocks.iter().enumerate() {
            if bi > 0 {
                out.push(',');
            }
            out.push_str("{\"s\":[");
            let mut first = true;
            for st in &bb.statements {
                match &st.kind {
                    StatementKind::Assign(b) => {
                        let (p, rv) = &**b;
                        if !first {
                            out.push(',');
                        }
                        first = false;
                        let (_, ln, _) = self.line(st.source_info.span);
                        out.push_str("{\"d\":");
                        self.place(body, p, out);
                        out.push_str(",\"r\":");
                        self.rvalue(body, rv, out);
                        let _ = write!(out, ",\"ln\":{}", ln);
                        if st.source_info.span.from_expansion() {
                            out.push_str(",\"exp\":true");
                        }
                        out.push('}');
                    }
                    StatementKind::SetDiscriminant { place, .. } => {
                        if !first {
                            out.push(',');
                        }
                        first = false;
                        let (_, ln, _) = self.line(st.source_info.span);
                        out.push_str("{\"d\":");
                        self.place(body, place, out);
                        let _ = write!(out, ",\"r\":{{\"k\":\"setdisc\",\"o\":[]}},\"ln\":{}}}", ln);
                    }
                    _ => {}
                }
            }
            out.push_str("],\"t\":");
            let term = bb.terminator();
            let (tfile, ln, col) = self.line(term.source_info.span);
            let exp = term.source_info.span.from_expansion();
            match &term.kind {
                TerminatorKind::Call { func, args, .. }
                | TerminatorKind::TailCall { func, args, .. } => {
                    let (dest, tgt) = match &term.kind {
                        TerminatorKind::Call { destination, target, .. } => (Some(destination), *target),
                        _ => (None, None),
                    };
                    out.push_str("{\"k\":\"call\"");
                    let mut have = false;
                    if let Operand::Constant(c) = func {
                        if let ty::FnDef(d, ga) = c.const_.ty().kind() {
                            have = true;
                            out.push_str(",\"f\":");
                            esc(&self.id(*d), out);
                            out.push_str(",\"fn\":");
                            esc(&self.name_args(*d, ga), out);
                            out.push_str(",\"fp\":");
                            esc(&self.name(*d), out);
                            // resolution
                            let env = ty::TypingEnv::post_analysis(tcx, body.source.def_id());
                            let na = tcx.try_normalize_erasing_regions(env, ty::Unnormalized::new_wip(*ga)).ok();
                            let mut resolved = false;
                            if let Some(na) = na {
                                if let Ok(Some(inst)) = Instance::try_resolve(tcx, env, *d, na) {
                                    match inst.def {
                                        ty::InstanceKind::Item(r) => {
                                            resolved = true;
                                            if r != *d {
                                                out.push_str(",\"r\":");
                                                esc(&self.id(r), out);
                                                out.push_str(",\"rn\":");
                                                esc(&self.name(r), out);
                                            }
                                        }
                                        ty::InstanceKind::Virtual(..) => {
                                            out.push_str(",\"virt\":true");
                                        }
                                        ty::InstanceKind::ClosureOnceShim { .. }
                                        | ty::InstanceKind::FnPtrShim(..)
                                        | ty::InstanceKind::ReifyShim(..) => {
                                            resolved = true;
                                            out.push_str(",\"shim\":true");
                                        }
                                        _ => {
                                            resolved = true;
                                        }
                                    }
                                }
                            }
                            if !resolved {
                                if tcx.trait_of_assoc(*d).is_some() {
                                    out.push_str(",\"unres\":true");
                                }
                            }
                            if let Some(tr) = tcx.trait_of_assoc(*d) {
                                out.push_str(",\"trait\":");
                                esc(&self.name(tr), out);
                                if ga.len() > 0 {
                                    if let Some(t0) = ga.types().next() {
                                        out.push_str(",\"self\":");
                                        esc(&self.ty_str(t0), out);
                                    }
                                }
                            }
                        }
                    }
                    if !have {
                        out.push_str(",\"f\":\"\",\"fn\":\"<indirect>\",\"fp\":\"<indirect>\",\"ind\":");
                        self.operand(body, func, out);
                    }
                    out.push_str(",\"a\":[");
                    for (i, a) in args.iter().enumerate() {
                        if i > 0 {
                            out.push(',');
                        }
                        self.operand(body, &a.node, out);
                    }
                    out.push(']');
                    if let Some(d) = dest {
                        out.push_str(",\"d\":");
                        self.place(body, d, out);
                    }
                    if let Some(t) = tgt {
                        let _ = write!(out, ",\"t\":{}", t.as_usize());
                    }
                }
                TerminatorKind::Assert { cond, expected, msg, target, .. } => {
                    out.push_str("{\"k\":\"assert\",\"msg\":");
                    let m = format!("{:?}", msg);
                    let m = m.split('(').next().unwrap_or("").to_string()
                        + &(if let rustc_middle::mir::AssertKind::Overflow(op, ..) = &**msg {
                            format!("({:?})", op)
                        } else {
                            String::new()
                        });
                    esc(&m, out);
                    let _ = write!(out, ",\"exp_val\":{},\"o\":[", expected);
                    self.operand(body, cond, out);
                    let _ = write!(out, "],\"t\":{}", target.as_usize());
                }
                TerminatorKind::SwitchInt { discr, targets } => {
                    out.push_str("{\"k\":\"switch\",\"o\":[");
                    self.operand(body, discr, out);
                    out.push_str("],\"ts\":[");
                    for (i, (v, t)) in targets.iter().enumerate() {
                        if i > 0 {
                            out.push(',');
                        }
                        let _ = write!(out, "[\"{}\",{}]", v, t.as_usize());
                    }
                    let _ = write!(out, "],\"else\":{}", targets.otherwise().as_usize());
                }
                TerminatorKind::Goto { target } => {
                    let _ = write!(out, "{{\"k\":\"goto\",\"t\":{}", target.as_usize());
                }
                TerminatorKind::Drop { place, target, .. } => {
                    out.push_str("{\"k\":\"drop\",\"o\":[");
                    self.place(body, place, out);
                    let _ = write!(out, "],\"t\":{}", target.as_usize());
                }
                TerminatorKind::Return => out.push_str("{\"k\":\"ret\""),
                TerminatorKind::Unreachable => out.push_str("{\"k\":\"unreach\""),
                TerminatorKind::UnwindResume | TerminatorKind::UnwindTerminate(_) => {
                    out.push_str("{\"k\":\"unwind\"")
                }
                TerminatorKind::FalseEdge { real_target, .. } => {
                    let _ = write!(out, "{{\"k\":\"goto\",\"t\":{}", real_target.as_usize());
                }
                TerminatorKind::FalseUnwind { real_target, .. } => {
                    let _ = write!(out, "{{\"k\":\"goto\",\"t\":{}", real_target.as_usize());
                }
                TerminatorKind::Yield { resume, .. } => {
                    let _ = write!(out, "{{\"k\":\"yield\",\"t\":{}", resume.as_usize());
                }
                TerminatorKind::CoroutineDrop => out.push_str("{\"k\":\"ret\""),
                _ => {
                    out.push_str("{\"k\":\"other\",\"ts\":[");
                    for (i, s) in term.successors().enumerate() {
                        if i > 0 {
                            out.push(',');
                        }
                        let _ = write!(out, "{}", s.as_usize());
                    }
                    out.push(']');
                }
            }
            let _ = write!(out, ",\"ln\":{},\"col\":{}", ln, col);
            if exp {
                out.push_str(",\"exp\":true");
            }
            if tfile != file {
                out.push_str(",\"file\":");
                esc(&tfile, out);
            }
            out.push('}');
            if bb.is_cleanup {
                out.push_str(",\"cu\":true");
            }
            out.push('}');
        }
        out.push_str("]}\n");
    }
}

struct Cb;
impl rustc_driver::Callbacks for Cb {
    fn after_analysis<'tcx>(
        &mut self,
        _c: &rustc_interface::interface::Compiler,
        tcx: TyCtxt<'tcx>,
    ) -> Compilation {
        let dir = match std::env::var("VERIF_FACTS_DIR") {
            Ok(d) => d,
            Err(_) => return Compilation::Continue,
        };
        let krate = tcx.crate_name(LOCAL_CRATE).to_string();
        let want = std::env::var("VERIF_FACTS_CRATES").unwrap_or_default();
        if !want.is_empty() && !want.split(',').any(|c| c == krate) {
            return Compilation::Continue;
        }
        // Only the library/bin targets of workspace members; skip build scripts.
        if krate == "build_script_build" {
            return Compilation::Continue;
        }
        let cx = Cx { tcx };
        let mut out = String::new();
        // ADT table: enums/structs with their variants and fields (name, type, visibility).
        for ldid in tcx.hir_crate_items(()).definitions() {
            let did = ldid.to_def_id();
            match tcx.def_kind(did) {
                DefKind::Struct | DefKind::Enum => {
                    let adt = tcx.adt_def(did);
                    out.push_str("{\"adt\":");
                    esc(&cx.name(did), &mut out);
                    out.push_str(",\"crate\":");
                    esc(&krate, &mut out);
                    let (f, l, _) = cx.line(tcx.def_span(did));
                    out.push_str(",\"file\":");
                    esc(&f, &mut out);
                    let _ = write!(out, ",\"lo\":{},\"enum\":{},\"variants\":[", l, adt.is_enum());
                    for (i, v) in adt.variants().iter().enumerate() {
                        if i > 0 {
                            out.push(',');
                        }
                        out.push_str("{\"name\":");
                        esc(v.name.as_str(), &mut out);
                        out.push_str(",\"fields\":[");
                        for (j, fd) in v.fields.iter().enumerate() {
                            if j > 0 {
                                out.push(',');
                            }
                            out.push_str("{\"name\":");
                            esc(fd.name.as_str(), &mut out);
                            out.push_str(",\"ty\":");
                            let t = tcx.type_of(fd.did).instantiate_identity().skip_norm_wip();
                            esc(&cx.ty_str(t), &mut out);
                            let _ = write!(out, ",\"pub\":{}}}", fd.vis.is_public());
                        }
                        out.push_str("]}");
                    }
                    out.push_str("]}\n");
                }
                _ => {}
            }
        }
        for ldid in tcx.mir_keys(()) {
            let did = ldid.to_def_id();
            let kind = tcx.def_kind(did);
            if !matches!(kind, DefKind::Fn | DefKind::AssocFn | DefKind::Closure) {
                continue;
            }
            if !tcx.is_mir_available(did) {
                continue;
            }
            cx.function(did, &mut out);
        }
        std::fs::create_dir_all(&dir).ok();
        let tmp = format!("{dir}/.{krate}.{}.tmp", std::process::id());
        let mut f = std::fs::File::create(&tmp).unwrap();
        f.write_all(out.as_bytes()).unwrap();
        drop(f);
        std::fs::rename(&tmp, format!("{dir}/{krate}.jsonl")).unwrap();
        Compilation::Continue
    }
}

fn main() {
    let mut args: Vec<String> = std::env::args().collect();
    // RUSTC_WORKSPACE_WRAPPER passes the real rustc path as argv[1].
    args.remove(1);
    rustc_driver::run_compiler(&args, &mut Cb);
}
