#!/usr/bin/env python3
"""Self-test helper: apply one textual edit to /repo (working tree), run a check, restore the file.
usage: mutate.py <ID> <relpath> <old> <new> [--count N]   (old/new are literal strings; old must occur exactly once unless --count)"""
import subprocess, sys, os
pid, rel, old, new = sys.argv[1:5]
p = os.path.join("/repo", rel)
src = open(p).read()
n = src.count(old)
want = int(sys.argv[sys.argv.index("--count") + 1]) if "--count" in sys.argv else 1
if n != want:
    print(f"MUTATION-SKIPPED: {old!r} occurs {n} times in {rel} (expected {want})"); sys.exit(3)
open(p, "w").write(src.replace(old, new))
try:
    r = subprocess.run(["/verif/check", pid], capture_output=True, text=True)
    out = r.stdout + r.stderr
    v = [l for l in out.splitlines() if "FAILED at" in l or l.startswith("VIOLATION") or "ANALYSIS-ERROR" in l]
    print(f"exit={r.returncode}")
    for l in v[:12]: print("  ", l[:260])
finally:
    open(p, "w").write(src)
sys.exit(0 if r.returncode == 1 else 1)
