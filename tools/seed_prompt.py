#!/usr/bin/env python3
"""Print the prompt handed to a mutation sub-agent for one property (property text only, nothing from /verif)."""
import json, sys
pid = sys.argv[1]; wt = sys.argv[2]
for l in open('/verif/properties.jsonl'):
    p = json.loads(l)
    if p['id'] == pid: break
else: sys.exit('no such property')
print(f"""You are helping test a verification effort on the FuelLabs/sway repository (the Sway compiler toolchain, written in Rust). Your job is to play the adversary: produce ONE realistic source change to the repository that BREAKS the property below while the repository still compiles and its existing tests still pass.

## The property ({p['id']}: {p['title']})
Statement: {p['statement']}
Quantified over: {p['quantifier']['text']}
Why the existing tests cannot settle it: {p['why_tests_cant']}
Code the property is anchored in: {', '.join(p['anchors']['files'])}
Mechanisms: {'; '.join(m['name']+' ('+m['where']+')' for m in p['anchors']['mechanism'])}

## Your scratch checkout
A git worktree of the repository is at {wt} (already created, at the pinned commit). Work ONLY inside {wt}. Never touch /repo or /verif (do not read /verif either). The sandbox has no network: every cargo command needs `--offline`. Disk space is tight. To avoid rebuilding all dependencies, start with `mkdir -p {wt}/target && rsync -a --exclude incremental --exclude examples /repo/target/ {wt}/target/` (about 15 GB; do NOT use a plain `cp -a`), always build with `CARGO_TARGET_DIR={wt}/target`, and when you are completely done delete `{wt}/target/debug/incremental` and any test executables you built that the demonstration does not need. Build and test only the crates you touch and what depends on them for your demonstration (e.g. `cargo test --offline -p sway-ir`), never the whole workspace unless needed; the machine is shared, use at most 6 parallel jobs (`-j 6`).

## What makes a good change
- It looks like something a developer could plausibly commit (a refactor that drops a case, a wrong operand, an off-by-one, a missing guard, an 'optimisation' that is not always valid, two edits in different places that are each harmless alone). Small: ideally under 30 changed lines. No comments that give it away.
- It compiles, and the existing tests of the touched crates (and obvious dependants) still pass. Check this by actually running them.
- The breakage needs something specific to manifest — an unusual input, a particular multi-step sequence, a particular interleaving or crash point, or two cooperating sites — NOT something ordinary use would expose at once.
- It breaks the property as stated (observable behaviour), not merely code style.

## What to deliver (all under {wt}/seed/)
1. `patch.diff` — the change, as produced by `git -C {wt} diff` (source files only; do not include the seed/ directory or target/).
2. a demonstration — a test file, small Rust program, Sway/IR input plus the exact command line — that FAILS (or shows the wrong behaviour) with the patch applied and PASSES (shows the right behaviour) without it. Put the files under `seed/demo/` and make it runnable by one shell script `seed/demo/run.sh` that exits 0 when the property holds for this demonstration and non-zero when it is broken. It must work offline. If the demonstration is a new Rust test, keep it in a separate file/diff `seed/demo/test.diff` that applies on top of both the patched and unpatched tree.
3. `meta.json` — {{"property": "{p['id']}", "summary": one sentence on what was changed, "needs": what specific input/sequence/interleaving is required for it to manifest, "ran": the exact commands you ran and what they printed (tests passing with the patch, demo failing with / passing without)}}.

Leave the worktree with the patch applied. In your final answer, summarise the change, the file(s) touched, and how you demonstrated it. Do not spend more than about 60-90 minutes of work; if your first idea does not survive the existing tests, pick another.
""")
