#!/bin/bash
# usage: try_seed.sh <patch.diff> <check id>...   apply a patch to /repo, run checks, always restore
P="$1"; shift
cd /repo || exit 2
if ! git diff --quiet; then echo "repo dirty, refusing"; exit 2; fi
git apply "$P" || { echo "patch does not apply"; exit 2; }
for id in "$@"; do
  /verif/check "$id" 2>&1 | grep -E "FAILED at|^VIOLATION|ANALYSIS-ERROR|^\[$id\]" | cut -c1-330
done
git checkout -- . ; git status --short | head -3
