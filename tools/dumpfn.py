#!/usr/bin/env python3
"""Debug helper: print the MIR facts of functions whose name matches a regex.  usage: dumpfn.py <crate> <regex>"""
import sys, json, os
sys.path.insert(0, os.path.join(os.path.dirname(os.path.abspath(__file__)), "..", "rules"))
from lib import mir

def op(o):
    if "c" in o: return "const " + o["c"]
    if "fn" in o: return "fn:" + (o.get("rfn") or o["fn"])
    s = f"_{o['l']}"
    for p in o.get("p", []):
        if p == "*": s = f"(*{s})"
        elif p[0] == "f": s += "." + p[3]
        elif p[0] == "dc": s += f" as {p[1]}"
        else: s += f"[{p}]"
    return s

def main():
    F = mir.Facts([sys.argv[1]])
    for f in F.find(sys.argv[2]):
        print(f"== {f.name}  [{f.id}] {f.file}:{f.lo}-{f.hi} kind={f.kind} nargs={f.nargs} exp={f.exp}")
        print("   vars", f.vars, "upvars", f.d.get("upvars"))
        for i, bb in enumerate(f.bbs):
            if bb.get("cu") and "--cu" not in sys.argv: continue
            print(f" bb{i}{' CU' if bb.get('cu') else ''}")
            for s in bb["s"]:
                r = s["r"]
                extra = {k: v for k, v in r.items() if k not in ("k", "o")}
                print(f"    {op(s['d'])} = {r['k']}({', '.join(op(o) for o in r.get('o', []))}) {extra if extra else ''}  @{s.get('ln')}")
            t = bb["t"]
            if t["k"] == "call":
                print(f"    T {op(t['d']) if 'd' in t else '_'} = call {t.get('rn') or t.get('fp')} [{t.get('fn','')[:100]}]({', '.join(op(o) for o in t.get('a', []))}) -> bb{t.get('t')} @{t.get('ln')}{' unres' if t.get('unres') else ''}")
            else:
                print("    T", json.dumps({k: v for k, v in t.items() if k not in ("col",)}))

main()
