#!/usr/bin/env python3
"""Generate /verif/MANIFEST.json from the table below (single source of truth) and validate it."""
import json, os, sys
V = os.path.dirname(os.path.dirname(os.path.abspath(__file__)))

# id -> (engine, level category, technique, level text, level note, design ref)
CLAIMED = {
 "C01": ("E-TAB+E-SW", "other", "match-table SPEC of operator lowering, AGREE of opcode identity / operand order across the allocated -> fuel_asm and asm-text -> virtual layers (syn), token-structure rules on the std operator impls of u8/u16/u32 (Sway tokenizer), finite-domain evaluation of every constant-folding identity against the FuelVM opcode semantics and evaluator-table SPEC for the asm, IR and const_eval folding tables",
         "Decides four table-shaped clauses of code generation: every BinaryOpKind / Predicate / UnaryOpKind is lowered to the opcode the language "
         "prescribes with operands in (dest, lhs, rhs) order; every allocated instruction is encoded as the fuel_asm op of the same name with its "
         "operands in the same order, and every asm mnemonic builds the VirtualOp of the same name; the std Add/Subtract/Multiply impls of u8/u16/u32 "
         "compute in u64, range-check against the type's maximum and revert under panic_on_overflow_enabled(), u16/u32 siblings agree, and << masks "
         "to the width; every constant-folding table (asm propagation, IR combine_binary_op and identities, const_eval_intrinsic) uses the checked evaluator "
         "of its operator, propagates its None, keeps operand order, and only rewrites by identities valid for every value of the unknown operand, reverts "
         "included. It does not decide code generation as a whole (control flow, memory layout, calls).",
         "Trusted: syn; rules/lib/sw.py tokenizer; FuelVM opcode semantics; spec/ops_lowering.txt.",
         "DESIGN.md §3 C01"),
 "C03": ("E-TAB", "other", "syntax-tree table extraction: COVER / NOWILD / IMPLIES / SPEC rules over all InstOp and FuelVmInstruction variants",
         "Decides that the per-instruction tables every IR pass is built on (operand enumeration/rewriting, side-effect, terminator, "
         "memory read/write, CSE keys, fn-dedup hashing, inliner cloning, pass registry) are complete and mutually consistent for all "
         "47 instruction variants; a necessary condition of pass soundness, not the passes' algorithms.",
         "Trusted: syn; spec/ir_effects.txt written from instruction.rs doc comments; three reviewed exceptions named in rules/C03.py.",
         "DESIGN.md §3 C03"),
 "C04": ("E-TAB+E-MIR", "other", "pass-literal extraction (syn) + MIR cones of every pass runner for get_analysis_result::<T> instantiations; CFG path rule on PassManager::run / actually_run; who-builds-terminators pairing rule",
         "Decides: every analysis result a pass reads in reach(runner) is produced by one of its transitively declared deps at a compatible scope; "
         "passes are registered dependency-first, deps are analyses, pipelines name only registered passes; PassManager::run calls Context::verify "
         "on every path between two passes and propagates its error; a modifying transform invalidates cached analyses of its scope; the verifier's "
         "dispatch has no catch-all; hand-built branch terminators register their CFG edges. That each pass's output verifies is not decided.",
         "Trusted: syn; rustc MIR; the analysis cache as written.",
         "DESIGN.md §3 C04"),
 "C05": ("E-TAB", "other", "writer/reader agreement: printer match tables vs peg grammar (keyword inverse, field coverage, ordered-choice shadowing, capture use)",
         "Decides that for every compiler-producible instruction the IR printer emits every field unconditionally under a mnemonic that "
         "leads an un-shadowed alternative of the grammar, keyword tables are inverse, and grammar captures reach the AST. Necessary for "
         "round-tripping; identical re-print and behaviour after reparse are not decided.",
         "Trusted: syn; rust-peg ordered-choice semantics. Non-producible instructions/registers are advisory only.",
         "DESIGN.md §3 C05"),
 "C06": ("E-MIR+E-TAB", "other", "MIR partial-arithmetic site enumeration + evaluator-table SPEC + CFG path rule on const-fn argument binding",
         "Decides: no unreviewed panicking/wrapping arithmetic in the compile-time evaluation files; each (operator, value kind) uses the "
         "evaluator that returns no constant exactly when run time reverts; const-fn application evaluates arguments in the caller's "
         "environment and unbinds parameters on all paths. Aggregates/casts are not decided.",
         "Trusted: rustc MIR, syn, u64::checked_* and num-bigint semantics, spec/const_ops.txt, spec/c06_sites.txt.",
         "DESIGN.md §3 C06"),
 "C07": ("E-TAB", "other", "finite-domain evaluation of every rewrite identity of the transform_operator! table against the FuelVM opcode semantics; ISA def/use/effect SPEC; path rules (kill discipline) on the const-indexed-aggregate tracker; who-may-delete rule with a flag-register (def_const_registers) obligation and an adjacency anti-pattern on every pass that removes instructions",
         "Decides: every algebraic rewrite and fold of the constant propagator is valid for all values of the unknown operand (reverts included) and "
         "uses the VM-agreeing evaluator; the optimizer's def/use/side-effect tables agree with the ISA; the const-indexed-aggregate tracker records a "
         "new definition on every defining path, reads before it kills, and compares a version with its own register; every pass that deletes "
         "instructions (rather than overwriting them with NOOP) accounts for the $of/$err registers the deleted instruction writes through a "
         "control-flow-aware check, or only deletes unreachable code. The optimizers' dataflow as a whole is not decided.",
         "Trusted: syn; FuelVM ALU semantics (rules/C07.py VM_SEM, spec/isa.txt) written from fuel-asm/fuel-vm 0.66 sources.",
         "DESIGN.md §3 C07"),
 "C22": ("E-MIR", "proof", "MIR value-provenance: returned order == toposort(Reversed(graph)).map_err(..); edge-direction provenance at every add/update_edge; forward-only consumers",
         "With petgraph's toposort contract the checked facts imply the stated property for every graph: each package once, dependencies "
         "first, Err on any cycle: the plan's order is the result of toposort(Reversed(graph)) mapped through map_err, stored in the BuildPlan "
         "unmodified (moved from the call, no mutable borrow or hand-off in between), consumed forward only, and edges point from dependent "
         "to dependency at every construction site. All obligations must be discharged. (A gap in the 'stored unmodified' obligation was found by a seeded change and closed.)",
         "Trusted: petgraph::algo::toposort contract; rustc MIR. Consumers outside forc-pkg/forc-test/sway-lsp are not analysed.",
         "DESIGN.md §3 C22"),

 "C08": ("E-TAB+E-MIR", "other", "syntax-tree table extraction over all 104 VirtualOp variants (operand-role SPEC / partition / AGREE / position-preserving rewrite / successor tables) + MIR rules on graph-query direction, pipeline wiring and the liveness equations",
         "Decides that every register operand of every VirtualOp is classified read/written exactly as the FuelVM defines (spec/isa.txt), "
         "that coalescing and final assignment map every operand position of the same variant in order, that successor tables never omit a "
         "real edge, that the directed interference graph is only ever read undirected, that try_color wires liveness -> interference -> "
         "coalescing -> colouring with the values it computed, that liveness uses live_in = use ∪ (live_out − def) over successors, that "
         "coalescing uses only resolved representatives after union-find resolution and keeps a MOVE whose reset of $of/$err is observed, and that "
         "every spilled def is stored / use refilled on all paths. "
         "Necessary conditions for 'no two simultaneously live registers share a machine register'; the colouring/spilling algorithm is not decided.",
         "Trusted: syn; rustc MIR; petgraph; spec/isa.txt written from the FuelVM ISA and fuel-asm/fuel-vm 0.66.4.",
         "DESIGN.md §3 C08"),
 "C09": ("E-SW+E-TAB", "other", "writer/reader agreement over the std codec.sw impls (Sway tokenizer: impl sets, component order per tuple arity, loop direction, length-prefix order) and over the compiler's derive generators (syn: iteration order, tag-before-payload)",
         "Decides only that the decoder reads what the encoder wrote, in the same order and number: AbiEncode and AbiDecode are implemented for the "
         "same types; for every tuple arity the encoder appends self.0..self.n-1 in index order and the decoder builds the components in parameter "
         "order; arrays are walked ascending in both directions; str/raw_slice are read as u64 length then bytes; derived struct impls walk the fields "
         "in declaration order both ways; derived enum impls write and read the same u64 `tag` before the payload and cover every variant. Byte-level "
         "canonicity against the Fuel ABI and the JSON ABI contents are not decided.",
         "Trusted: rules/lib/sw.py tokenizer; syn; BufferReader / __encode_buffer_append primitives.",
         "DESIGN.md §3 C09"),
 "C10": ("E-SW+E-TAB", "other", "SPEC of each primitive impl's trivial flags against a memory-size / encoded-size / invalid-pattern table; COVER of composite predicates (layout-identity test AND every component); derive-generator rules (syn); validity-check rules on bool / enum-tag decoding",
         "Decides the classification tables behind the fast path: each primitive's is_encode_trivial is (memory size == encoded size) and its "
         "is_decode_trivial additionally requires that every bit pattern is a value (bool is not); every tuple predicate conjoins the layout-identity "
         "test with the predicate of every type parameter and arrays delegate to their element; the compiler's derived struct/enum impls emit the same "
         "conjunction over every field/variant and derived enums are never trivially decodable; a bool byte other than 0/1 and an unknown enum tag "
         "revert. That __runtime_mem_id == __encoding_mem_id is itself right for every nesting is not decided.",
         "Trusted: rules/lib/sw.py tokenizer; syn; spec/abi_sizes.txt; the two mem-id intrinsics.",
         "DESIGN.md §3 C10"),
 "C11": ("E-TAB+E-SW", "other", "AGREE rules over a three-party protocol (caller desugaring, std contract_call, generated __entry dispatcher): format! templates rendered with captures kept symbolic and tokenised as Sway, capture provenance traced through the generator's let-bindings (syn), positional-argument agreement along the call path down to the CALL opcode",
         "Decides the agreement a contract call needs to reach the named method with its arguments: the selector is u64 big-endian length then the name bytes "
         "of the resolved method and the entry reads length then bytes from the first call parameter; each dispatch arm is filed under and guarded by its own "
         "name length, compares that many bytes at this method's offset in the names blob (offset taken before the name is appended), branches on that "
         "comparison, calls __contract_entry_<the compared name> (the symbol methods are registered under), decodes the tuple of declared parameter types in "
         "order and passes args.0.. in order, and always returns; the fallback follows the arms and a missing fallback reverts; duplicate names are rejected; "
         "argument roles agree from the desugared call through std contract_call, the call-frame tuple, the intrinsic, the IR instruction and the CALL "
         "operands. Does not decide the encoding of argument values (C09/C10) or the VM's CALL.",
         "Trusted: syn; rules/lib/sw.py tokenizer; FuelVM call-frame layout and meq semantics.",
         "DESIGN.md §9.2 C11"),
 "C12": ("E-MIR+E-TAB+E-SW", "other", "who-may-call and argument-provenance rules on the storage key derivation (MIR), CFG order of hasher inputs, constant/separator SPEC (syn), Sway std-lib domain constant check, padding-arithmetic anti-pattern rule",
         "Decides: the emitted storage slots and the generated storage accesses take a field's key from the same function with the same inputs; "
         "the implicit key is sha256(domain byte 0 ++ `storage[::ns]*.field`) with the domain fed first and an explicit `in` key used verbatim; "
         "StorageMap hashes under a different domain byte placed first; multi-slot values use key + i; the slot serializer has no pad count that is "
         "non-zero for aligned lengths. a storage access resolves its declared field by name and the complete namespace path. The byte layout of values inside slots versus what std::storage reads reassemble is not decided.",
         "Trusted: rustc MIR; syn; fuel_crypto::Hasher = SHA-256 of concatenated inputs.",
         "DESIGN.md §3 C12"),
 "C13": ("E-MIR+E-TAB", "other", "MIR result-provenance on Entry::equiv, who-constructs / who-calls rules on configurable entries and LoadDataId, AGREE between the offset function and the serializer (syn), commutativity (mirrored-arm canonical form) and bound-selection SPEC on the encoded-size lattice",
         "Decides: two configurables can never share a data-section entry (equiv conjoins name equality; insertion routes by name kind); reported "
         "offsets and code addresses both come from absolute_idx_to_offset, which agrees with serialize_to_bytes on entry order, per-entry size and "
         "alignment, with configurable indices shifted by the number of non-configurables; no LoadDataId can name a configurable entry (so the asm "
         "optimizers never fold a default); AbiEncodeSizeHint::{min,max,range_from_min_max}, which size a configurable's slot, are commutative and use "
         "lower bounds in min / upper bounds in max. That decoding a patched slot yields the patched value is not decided.",
         "Trusted: rustc MIR; syn.",
         "DESIGN.md §3 C13"),
 "C14": ("E-TAB", "other", "match-table SPEC over the pattern-kind dispatch (pattern kind -> requirement-node kind), argument-provenance rules for sub-pattern/component pairing, fold-direction and argument-role rules on the arm chain, operator SPEC for requirement-tree -> condition (syn)",
         "Decides only the third clause of the statement (at run time the first matching arm executes) through its table-shaped necessary conditions: "
         "arms are folded bottom-up with the earlier arm's condition outermost and the later arms in the else position; the chain ends in the catch-all "
         "arm's result or a revert; or-patterns become an OR over every alternative against the same value, struct/tuple/enum patterns an AND, literals "
         "and constants `value == literal`, variables bindings; each sub-pattern is matched against its own field / element index / downcast payload and "
         "an enum's tag is required first; requirement leaves become `==`, AND nodes lazy &&, OR nodes lazy ||, in order. The exactness of the "
         "exhaustiveness and reachability analysis (usefulness algorithm over pattern matrices) is NOT decided by any rule.",
         "Trusted: syn; instantiate_if_expression / instantiate_lazy_operator build what their names say; std::ops::Eq on literals.",
         "DESIGN.md §9.2 C14"),
 "C15": ("E-MIR", "other", "lint-configuration check + MIR enumeration of iteration over randomly seeded hash collections with order-insensitive-sink idioms (forward iterator-chain following) + who-may-call rule on ambient sources",
         "Decides: the project's deny lint on hash-order iteration stays armed for every output-affecting crate; every iteration-API call on a "
         "RandomState / hashbrown-default / DashMap collection in those crates ends in an order-insensitive sink or is an individually reviewed "
         "site; clock / pid / thread / read_dir / RandomState::new / rand / env calls occur only at reviewed sites. A new order-observing "
         "iteration or ambient call alarms. Byte-identical artifacts as a whole (thread scheduling, ordered-container logic) are not decided.",
         "Trusted: rustc MIR; reviewed sites (spec/c15_sites.txt: 18, two marked advisory; spec/c15_ambient.txt: 18).",
         "DESIGN.md §3 C15"),
 "C16": ("E-MIR", "other", "MIR call-graph cone + panic-site enumeration with guard idioms; Span constructor encapsulation; char-boundary provenance (backward slices, inter-procedural through params/captures) of every offset handed to the lexer's span constructors",
         "Decides: every potentially panicking MIR construct reachable from lex / lex_commented / parse_file / parse_module_kind is "
         "discharged by a machine-checked idiom or a reviewed exactly-keyed site (any new site alarms); Span values can only be built "
         "behind Span::new's `text.get(start..end)?` check; every offset the lexer turns into a span derives from char-boundary sources, a width added to a position is the width of "
         "the character of the same stream item (operands resolved through copies, `?`, wrappers, parameters and captures) and any other offset "
         "addition in token.rs is a reviewed site (spec/c16_offsets.txt); "
         "in-workspace callers give lex_commented valid ranges. Termination / stack depth are not decided.",
         "Trusted: rustc MIR/resolution; std, unicode-xid, num-bigint on the paths used; ~70 reviewed sites (spec/c16_sites.txt), each with its argument.",
         "DESIGN.md §3 C16"),
 "C23": ("E-MIR", "other", "MIR unit-of-measure taint (UTF-16 column vs byte offsets) + panic-site enumeration + dominance/provenance rules on apply_change, validate_range, position_to_index, calculate_line_offsets",
         "Decides structural clauses of document sync: the UTF-16 column reaches byte offsets only through a per-char len_utf16 count; "
         "indices handed to replace_range are char boundaries by provenance and are exactly the validated ones (start<=end<=len) on the Ok "
         "edge of validate_range; positions are converted / validated only inside apply_change, against the text the change applies to; no unreviewed panicking construct in the change-application cone; the line table is rebuilt after every "
         "content mutation; full-text changes replace the content and changes apply in order with errors propagated. Equality with the "
         "client's text for every edit sequence is the conjunction of these with std's String contracts and is not decided as a whole.",
         "Trusted: rustc MIR/resolution; String::replace_range, char_indices, len_utf16 contracts; three reviewed arithmetic sites (spec/c23_sites.txt).",
         "DESIGN.md §3 C23"),
 "C19": ("E-MIR", "other", "MIR FIELDS coverage of every sway-ast node's Format impl over its call-graph cone; dominance/`?`-propagation rule on format_module; completeness rule on the comment-map lookup; argument provenance of rewrite_with_comments",
         "Decides: every content-bearing field (everything except fixed-text keyword/punctuation/opcode tokens, spans and 4 reviewed fields) of every "
         "non-error variant of the 69 formatted syntax-tree nodes is read in reach(<T as Format>::format); format_module runs comment-map setup, "
         "module formatting, trailing comments and newline restoration in order with errors propagated; comments_between tests every entry contained "
         "in the range without truncation; comment weaving receives the node's own span and leaf spans; a `//` comment is written without a line end "
         "only under a condition that guarantees the following text starts on a new line. Necessary for token/comment preservation; what is emitted per "
         "field is not compared token by token.",
         "Trusted: rustc MIR/resolution; token types carry fixed text; LeafSpans gaps (listed in evidence) only misplace comments.",
         "DESIGN.md §3 C19"),
 "C20": ("E-TAB+E-MIR", "other", "writer/reader agreement: Display format skeletons vs FromStr separator calls (syn), separator direction against a field-character-class grammar table, keyword-table inverse, MIR FIELDS symmetry of PkgLock::from_node / Lock::to_graph",
         "Decides: for each pinned-source kind and for dependency lines the reader consumes exactly the separators the writer emits and takes "
         "each from the side on which the neighbouring fields cannot contain it; git reference keywords, the member keyword and the source "
         "prefixes are inverse / distinct; every PkgLock field written is read back, library and contract dependency lists are not swapped, "
         "salts are rebuilt, both directions disambiguate names with the same function, and no foreign type whose formatter is known to be lossy "
         "(gix_url::Url's Display redacts passwords) is formatted in forc_pkg. Equality of the reconstructed graph for all "
         "graphs also depends on third-party Display/FromStr pairs and is not decided.",
         "Trusted: syn; rustc MIR; spec/c20_grammar.txt character classes; semver / gix-url / cid / fuel-tx Display-FromStr round-trips.",
         "DESIGN.md §3 C20"),
 "C24": ("E-MIR", "other", "CFG dominance / ordering rules on the shared scheduling state (atomics, Notify, channel) in async handler bodies and the worker closure; who-may-write rule",
         "Decides three protocol rules each of which, when violated, yields a concrete bad interleaving (lost wake-up: Notified created after the "
         "condition check; stuck flag: is_compiling set after the request is sent; stale cancellation: retrigger flag not cleared when a request is "
         "picked up), plus: the worker resets is_compiling and then notifies after every job, only notify_waiters is used, and the scheduling state "
         "is written only by reviewed functions. The interleaving space as a whole is not explored (that is model checking).",
         "Trusted: rustc MIR of async bodies; tokio Notify / crossbeam-channel contracts; SeqCst.",
         "DESIGN.md §3 C24"),
 "C25": ("E-MIR", "other", "path-value provenance (shared lock path vs sibling) and dominance rules on file-system effects in PidFileLocking: atomic publish, guarded check-then-delete, takeover with the owner check inside the same advisory lock whose guard is alive until the rename; caller rules for forc-fmt and the LSP",
         "Decides the atomicity rules whose violation loses a running process's flag under a concrete interleaving (both reproduced on the "
         "pristine tree and fixed): the lock file is never created/truncated and written in place but published by renaming a fully written sibling; "
         "a file found stale is removed only under the exclusive advisory lock after re-reading it, and lock() takes a lock over under the same advisory "
         "lock; unparsable files are only removed by cleanup (safe given atomic publish); forc-fmt asks is_file_dirty before writing and bails out; the "
         "LSP sets the flag on didChange and clears it on didSave. One reviewed residual: release() racing a lock() of another LSP instance on the same file.",
         "Trusted: rustc MIR; rename(2) atomicity; fd-lock advisory locks; no PID reuse while a file is examined.",
         "DESIGN.md §9"),
 "C26": ("E-MIR+E-TAB", "other", "MIR FIELDS + self-recursion-over-dependencies rules on the two cache-validity predicates; guard-edge dominance at the reuse sites; comparison-direction SPEC (syn)",
         "Decides: both validity predicates consult every staleness field of a cache entry, conjoin their own check with a recursive check of "
         "every recorded dependency (validity is transitive), compare versions as `file version <= cached version`, and cached Programs / typed "
         "modules are returned only on the true edge of the corresponding predicate for the same path; the LSP commits cache changes only after a "
         "compilation that produced a program. Equality of a reused result with a fresh "
         "compilation (garbage collection of engines, diagnostics replay) is not decided.",
         "Trusted: rustc MIR; syn; dependencies lists are complete.",
         "DESIGN.md §3 C26"),
 "C27": ("E-SW", "other", "pairing (acquire/release) rule over every std function that switches a panic flag off; guard-before-use rule on index parameters of Vec / Bytes; guard-presence SPEC on the U128 arithmetic impls (Sway tokenizer)",
         "Decides three discipline clauses behind 'operations documented to revert do revert, and all others do not': every std function that "
         "calls disable_panic_on_overflow / disable_panic_on_unsafe_math keeps the prior flags and restores them with set_flags on every path "
         "(top-level restore, each early return preceded by a restore), so later arithmetic in the caller still reverts; every Vec / Bytes method "
         "taking an index does its pointer arithmetic only after the documented bounds check (assert, or None for the Option API; *_unchecked "
         "exempt); the U128 Add/Subtract/Multiply/Divide/Mod impls assert their overflow / zero-divisor case under a panic-flag query. Agreement of "
         "results of collections and wide arithmetic with reference models is NOT decided.",
         "Trusted: rules/lib/sw.py tokenizer; std::flags primitives; assert/revert abort.",
         "DESIGN.md §9.2 C27"),
 "C28": ("E-SW", "other", "address-provenance rule over every storage-primitive call site of the std storage collections (Sway tokenizer, let-resolution): who-may-address (never self.slot), sibling agreement of all methods on the two slot derivations, offset provenance, key-helper SPEC",
         "Decides only the slot-derivation agreement behind the statement, for the default build: no StorageVec / StorageMap / StorageBytes / "
         "StorageString method addresses storage through the parent's slot; every primitive call takes its slot from the collection's header "
         "(self.field_id(), u64 at offset 0) or content (sha256(self.field_id()), element offsets from offset_calculator::<V>) derivation, so readers "
         "and writers agree and different fields are separated by the hash; StorageMap derives every slot through one helper hashing (map domain, key, "
         "field id); element handles carry sha256((index, content slot)). Operation histories -- shifting in insert/remove, length updates, the "
         "primitives themselves -- are NOT decided.",
         "Trusted: rules/lib/sw.py tokenizer; sha256 collision resistance; storage_api.sw / storable_slice.sw primitives.",
         "DESIGN.md §9.2 C28"),
 "C29": ("E-TAB+E-MIR", "other", "finite-domain abstract evaluation of TestResult::passed over its syntax tree (4 expectations x 8 final states, exact for every case the code can distinguish); MIR provenance rules for per-test setup, storage cloning and reported fields",
         "Decides: the pass/fail verdict equals the stated table on a finite domain that separates ShouldRevert(Some c) / ShouldRevert(None) / "
         "ShouldNotRevert and Revert(c) / Revert(c') / non-revert states; every test's executor receives a TestSetup produced inside the per-test "
         "closure and builds its interpreter on a clone of that storage; the executor a test runs on derives only from the build call of the same "
         "invocation and is never re-pointed at another test; forc-test has no process-wide state; the reported condition, state and logs "
         "are the test's own; the attribute-to-expectation mapping builds the right variants. The VM's own isolation is trusted.",
         "Trusted: syn; rustc MIR; fuel-vm Interpreter::with_storage; MemoryStorage::clone deep-copies. Unsupported syntax in passed() is reported as ANALYSIS-ERROR, not as a violation.",
         "DESIGN.md §3 C29"),
 "C30": ("E-MIR", "other", "typestate on path values (MIR provenance: final / sibling / other) in git::fetch, dominance of all file-system effects over the single publishing rename, guard/lock dominance in <git::Pinned as Fetch>::fetch",
         "Decides the publish discipline: nothing is created or written at or under the directory whose existence means 'complete checkout'; it comes "
         "into existence only through one fs::rename from a sibling directory, dominated by every other file-system effect of the fetch; the re-use "
         "guard tests that very path, on the false edge fetches, under the write lock. With rename(2) atomicity this yields the stated property for "
         "every crash or I/O failure point of the git fetch; registry/ipfs fetches are not covered.",
         "Trusted: rustc MIR; rename(2) atomic within a directory; fd-lock advisory lock; git2 checkout writes only under target_dir.",
         "DESIGN.md §3 C30"),
 "C21": ("E-MIR", "proof", "MIR call-graph cone + panic-site enumeration with dominator-checked guard idioms",
         "Every potentially panicking MIR construct reachable from Lock::from_path / Lock::to_graph / source::Pinned::from_str "
         "is enumerated on each run and must be discharged by a machine-checked idiom or a reviewed, exactly keyed site; "
         "discharged == obligations is required. This is the whole stated property (never a panic) modulo the trusted libraries.",
         "Trusted: rustc MIR/resolution; toml, serde, semver, cid, gix-url, fuel-tx, petgraph do not panic on malformed input; "
         "two reviewed map/graph index sites (spec/c21_sites.txt). Allocation failure and stack overflow are out of scope.",
         "DESIGN.md §3 C21"),
}

NOT_APPLICABLE = {
 "C02": "Debug-versus-release equality of observable outcomes is a differential over executions of two whole pipelines; no static clause of it exists beyond the per-pass / per-table clauses claimed under C03, C04, C07 and C08 (one debug/release divergence, F15 in DESIGN.md 9.3, was found and fixed through the C08 rules, which is where such clauses live).",
 "C18": "Idempotence f(f(x))=f(x) depends on width heuristics and comment placement; no necessary structural clause exists.",
 "C17": "Panic-freedom of the whole compile pipeline: the cone of compile_to_asm has thousands of unwrap/expect/index/unreachable sites whose unreachability rests on type-checker invariants not visible in the shape of the code; the local-guard discharge that decides C16/C21/C23 leaves them open, and a reviewed-site table of that size would be a frozen list, not a decision.",
}
PENDING = "check not built yet in this round (design in DESIGN.md §3); not claimed until it runs clean on the unchanged tree"

def main():
    props = [json.loads(l) for l in open(os.path.join(V, "properties.jsonl"))]
    checks = []
    for pid, (eng, cat, tech, text, note, ref) in sorted(CLAIMED.items()):
        checks.append(dict(
            property_id=pid, quick_cmd=f"./check {pid} --tier quick", thorough_cmd=f"./check {pid} --tier thorough",
            evidence_file=f"/verif/evidence/{pid}.json", replay_cmd_template=f"./check {pid} --replay {{path}}",
            engine=eng, level_claimed=dict(category=cat, text=text, design_ref=ref), level_note=note, technique=tech))
    na = []
    for p in props:
        if p["id"] in CLAIMED:
            continue
        na.append(dict(property_id=p["id"], reason=NOT_APPLICABLE.get(p["id"], PENDING)))
    m = dict(
        version=1,
        setup_cmd="./setup.sh",
        hooks=dict(guard="fuellabs_sway_verif", enable="none needed: every check is a static analysis of /repo's working tree; no runtime hooks exist",
                   baseline_off_cmd="cd /repo && cargo nextest run --workspace --no-fail-fast --test-threads 8 --offline || cargo test --workspace --no-fail-fast --offline",
                   source_commits=[], add_only=True),
        engines=[
            dict(name="E-MIR", path="engines/mirfacts", serves_properties=sorted(p for p, v in CLAIMED.items() if "E-MIR" in v[0]),
                 kind_free_text="rustc_private driver (RUSTC_WORKSPACE_WRAPPER under cargo +nightly check) dumping per-function MIR facts; Python rule layer (call graph, cones, dominators, def-use)"),
            dict(name="E-TAB", path="engines/tabfacts", serves_properties=sorted(p for p, v in CLAIMED.items() if "E-TAB" in v[0]),
                 kind_free_text="syn-based syntax-tree extractor for match tables, enum definitions and table DSL macros; Python rule layer"),
            dict(name="E-SW", path="rules/lib/sw.py", serves_properties=sorted(p for p, v in CLAIMED.items() if "E-SW" in v[0]),
                 kind_free_text="tokenizer/brace matcher for the Sway std-lib sources (impl headers, method bodies, literals)"),
        ],
        checks=checks,
        not_applicable=na,
        notes="Static analysis only: no check compiles a Sway program, runs the FuelVM, executes a pass or calls a solver. "
              "Exit codes: 0 held (KNOWN-FINDING lines for listed findings), 1 violation, 2 analysis could not run.",
    )
    json.dump(m, open(os.path.join(V, "MANIFEST.json"), "w"), indent=1)
    try:
        import jsonschema
        jsonschema.validate(m, json.load(open("/root/.vp/MANIFEST.schema.json")))
        print("MANIFEST.json valid;", len(checks), "claimed,", len(na), "not applicable")
    except ImportError:
        print("jsonschema not available; written without validation")

if __name__ == "__main__":
    main()
