// Positive fixture for the C12 padding rule: `N - len % N` is N (not 0) when len is already a multiple of N.
fn pad_wrong(s: &mut Vec<u8>) {
    s.extend(vec![0; 8 - s.len() % 8]);
}
fn pad_right(s: &mut Vec<u8>) {
    s.extend(vec![0; (8 - s.len() % 8) % 8]);
    s.extend(vec![0; s.len().div_ceil(8) * 8 - s.len()]);
}
