"""C10 Trivial-encoding fast path is sound — classification tables.

R1 primitives: is_encode_trivial() of each primitive impl is the literal (memory size == encoded size) from
   spec/abi_sizes.txt; is_decode_trivial() additionally false where invalid bit patterns exist (bool)
R2 composites (std codec.sw): every tuple impl's predicate is `__runtime_mem_id::<Self>() == __encoding_mem_id::<Self>()`
   conjoined with is_*_trivial::<P>() for each of its type parameters; arrays delegate to their element type
R3 derived impls (compiler): the struct generators emit the mem-id test plus one conjunct per field, the enum encode generator
   the same per variant, and the enum decode predicate is the literal "false" (a tag can be out of range)
R4 invalid values revert: AbiDecode for bool maps 0 -> false, 1 -> true and everything else to __revert; the derived enum
   decoder ends its tag match with `_ => __revert(0)`
"""
import os, re
from lib import sw, tab
from lib.common import VERIF, AnalysisError

LEVEL = "other"
CODEC = "sway-lib-std/src/codec.sw"
GEN = "sway-core/src/semantic_analysis/ast_node/declaration/auto_impl/abi_encoding.rs"


def load_sizes():
    out = {}
    for ln in open(os.path.join(VERIF, "spec/abi_sizes.txt")):
        if ln.startswith("#") or not ln.strip():
            continue
        ty, mem, enc, inv = ln.split()
        out[ty] = (mem, enc, inv == "yes")
    return out


def run(rep):
    sizes = load_sizes()
    rep.explanation = (
        "Decides the classification tables behind the fast path: each primitive's trivial flags equal (memory size == encoded size) and, for "
        "decoding, (no invalid bit patterns); every composite predicate conjoins the layout-identity test with the predicate of every component; "
        "the compiler-derived impls emit the same conjunctions and never classify an enum as trivially decodable; invalid bool bytes and unknown "
        "enum tags revert. That the layout-identity intrinsic (__runtime_mem_id == __encoding_mem_id) itself is right for every nesting is not decided.")
    rep.trusted = ["rules/lib/sw.py tokenizer", "syn", "spec/abi_sizes.txt", "__runtime_mem_id / __encoding_mem_id compare the two layouts"]
    toks = sw.load(CODEC)
    ims = sw.impls(toks)
    n1 = 0
    for tr, ty, s, e, line in ims:
        if tr not in ("AbiEncode", "AbiDecode"):
            continue
        pred = "is_encode_trivial" if tr == "AbiEncode" else "is_decode_trivial"
        fs = sw.fns(toks, s, e)
        if pred not in fs:
            rep.ob("R1-predicate-present", f"{tr} for {ty}", False, CODEC, line, f"impl {tr} for {ty} has no {pred}")
            continue
        bs, be, fl = fs[pred]
        body = sw.texts(toks, bs + 1, be - 1)
        # ---- R1 primitives --------------------------------------------------------------------------------------------
        if ty in sizes:
            n1 += 1
            mem, enc, inv = sizes[ty]
            want = (mem == enc) and not (tr == "AbiDecode" and inv)
            got = body == ["true"] if want else body == ["false"]
            rep.ob("R1-primitive-trivial-flag", f"{pred} for {ty}", got, CODEC, fl,
                   f"{pred}() of {ty} is `{' '.join(body)}` but memory size {mem} / encoded size {enc} / invalid bit patterns {inv} give {str(want).lower()}: "
                   + ("the raw memory bytes would be emitted as the encoding although they differ" if tr == "AbiEncode" else
                      "bytes would be reinterpreted as a value without the width conversion / validity check"))
            continue
        # ---- R2 composites ----------------------------------------------------------------------------------------------
        m = re.match(r"^\((.*)\)$", ty)
        if m and m.group(1):
            params = [p for p in m.group(1).split(",") if p]
            txt = " ".join(body)
            memid = "__runtime_mem_id :: < Self > ( ) == __encoding_mem_id :: < Self > ( )" in txt
            conj = set(re.findall(pred + r" :: < (\w+) > \( \)", txt))
            ok = memid and conj == set(params) and "||" not in txt and "!" not in body
            rep.ob("R2-composite-conjoins-components", f"{pred} for {ty}", ok, CODEC, fl,
                   f"{pred}() of the {len(params)}-tuple must be the layout-identity test && {pred}::<P>() for every P in {params}; found layout test: "
                   f"{memid}, components: {sorted(conj)} — a non-trivial component would be copied/reinterpreted raw")
            continue
        if ty.startswith("[") and ty.endswith("]"):
            txt = " ".join(body)
            rep.ob("R2-composite-conjoins-components", f"{pred} for {ty}", txt == f"{pred} :: < T > ( )", CODEC, fl,
                   f"{pred}() of an array must be {pred}::<T>() of its element type (found `{txt}`)")
            continue
        if ty.startswith("str[") :
            # two cfg-selected impls: padded (false) and unpadded (true)
            rep.ob("R1-str-array-flag-is-literal", f"{pred} for {ty}@{line}", body in (["true"], ["false"]), CODEC, fl, "str[N] trivial flag must be a literal")
    rep.floor("R1-primitive-trivial-flag", 18, n1)
    rep.floor("R2-composite-conjoins-components", 54)
    # str[N]: exactly one `true` and one `false` impl per trait (feature-selected), and the `true` one is under the no-padding cfg
    # ---- R4 bool decode ---------------------------------------------------------------------------------------------------
    for tr, ty, s, e, line in ims:
        if tr == "AbiDecode" and ty == "bool":
            fs = sw.fns(toks, s, e)
            bs, be, fl = fs["abi_decode"]
            txt = " ".join(sw.texts(toks, bs, be))
            ok = re.search(r"0 => false , 1 => true , _ => __revert \( 0 \)", txt) is not None and "read :: < u8 >" in txt
            rep.ob("R4-bool-decode-validates", "AbiDecode for bool", ok, CODEC, fl,
                   "decoding a bool must read one byte and map 0 -> false, 1 -> true, anything else -> __revert")
    # ---- R3 derived impls ---------------------------------------------------------------------------------------------------
    g = tab.tree(GEN)
    sfn = tab.fn(g, "auto_impl_abi_encode_and_decode_for_struct")
    efn = tab.fn(g, "auto_impl_abi_encode_and_decode_for_enum")
    MEMID = "__runtime_mem_id::<Self>() == __encoding_mem_id::<Self>()"

    def predicate_builders(fn_):
        """{var: (has_memid_literal, looped conjunct format strings)} for `let mut is_*_trivial = "<lit>".to_string(); for .. { push_str(" && "); push_str(&format!(..)) }`"""
        out = {}
        for n in tab.walk(fn_["body"]):
            if n.get("k") == "Let" and (n.get("pat") or {}).get("name", "").startswith("is_") and n.get("init"):
                lits = tab.strings(n["init"])
                out[n["pat"]["name"]] = dict(init=lits, conj=[], line=n.get("l", 0))
        for n in tab.walk(fn_["body"]):
            if n.get("k") == "For":
                for k_, nm, c in tab.calls(n["body"]):
                    if k_ == "method" and nm == "push_str" and c["recv"].get("path") in out:
                        out[c["recv"]["path"]]["conj"] += tab.strings(c)
        return out
    sb = predicate_builders(sfn)
    for var, pred in (("is_encode_trivial", "is_encode_trivial"), ("is_decode_trivial", "is_decode_trivial")):
        b = sb.get(var)
        ok = bool(b) and b["init"] == [MEMID] and " && " in b["conj"] and any(c.startswith(pred + "::<{}>()") for c in b["conj"])
        rep.ob("R3-derived-struct-predicate", var, ok, GEN, b["line"] if b else sfn.get("l", 0),
               f"the derived struct impl must build {pred}() as `{MEMID}` followed by ` && {pred}::<FieldTy>()` for every field (found {b})")
    eb = predicate_builders(efn)
    b = eb.get("is_encode_trivial")
    ok = bool(b) and b["init"] == [MEMID] and " && " in b["conj"] and any(c.startswith("is_encode_trivial::<{}>()") for c in b["conj"])
    rep.ob("R3-derived-enum-encode-predicate", "is_encode_trivial", ok, GEN, b["line"] if b else efn.get("l", 0),
           f"the derived enum encode impl must conjoin the layout test with is_encode_trivial of every variant type (found {b})")
    # enum decode: generate_abi_decode_code(.., "false")
    dec_calls = [n for k_, nm, n in tab.calls(efn["body"]) if k_ == "method" and nm == "generate_abi_decode_code"]
    ok = len(dec_calls) == 1 and dec_calls[0]["args"] and dec_calls[0]["args"][-1].get("k") == "Lit" and dec_calls[0]["args"][-1].get("v") == "false"
    rep.ob("R3-derived-enum-never-trivially-decodable", "auto_impl_abi_encode_and_decode_for_enum", ok, GEN, efn.get("l", 0),
           "the derived enum AbiDecode must pass the literal `false` as its is_decode_trivial body: a tag outside the variant range is not a value")
    # the generated decode body's tag match ends in `_ => __revert(0)`
    gd = tab.fn(g, "generate_abi_decode_enum_body")
    ok = any("_ => __revert(0)" in s_ for s_ in tab.strings(gd["body"]))
    rep.ob("R4-enum-decode-rejects-unknown-tag", "generate_abi_decode_enum_body", ok, GEN, gd.get("l", 0),
           "the derived enum decoder must end its tag match with `_ => __revert(0)`")
    # struct fields / enum variants are enumerated in declaration order without filtering
    for fn_, coll in ((sfn, "fields"), (efn, "variants")):
        chains = [n for n in tab.find(fn_["body"], "MethodCall") if n.get("method") == "map" and any(x.get("member") == coll for x in tab.find(n["recv"], "Field"))]
        bad = [n for c in chains for n in tab.find(c["recv"], "MethodCall") if n.get("method") in ("filter", "skip", "take", "rev", "step_by", "filter_map", "skip_while", "take_while")]
        rep.ob("R3-every-component-contributes", fn_["name"], bool(chains) and not bad, GEN, fn_.get("l", 0),
               f"the trivial predicate must range over every element of `{coll}` (iter().map(..) with no filter/skip/take)")
