"""C27 Std collections and wide integers agree with reference models -- three discipline clauses only.

The statement compares std Vec / Bytes / String / U128 / math with reference models over all inputs; results of arithmetic and of
operation sequences are not decidable from the shape of the code. Three necessary conditions of "operations documented to
revert do revert, and all others do not" are:

P1 flag pairing: a std function that switches a panic flag off (`disable_panic_on_overflow()`, `disable_panic_on_unsafe_math()`)
   keeps the prior flags and restores them with `set_flags(<prior>)` on every path before it returns -- no `return` in between,
   restore at the top level of the body. A missing restore makes every later overflow in the caller wrap silently.
B1 index discipline: every Vec / Bytes method that takes an index does its pointer arithmetic with that index only after the
   documented check: `assert(i < self.len)` (`<=` for insert / split_at), or `if self.len <= i { return None }` for the Option API
B2 checked wide arithmetic: each U128 Add / Subtract / Multiply / Divide / Mod impl guards its overflow / zero-divisor case with an
   assert (or revert) under the matching panic flag query
"""
import re
from lib import sw
from lib.common import AnalysisError

LEVEL = "other"
STD = "sway-lib-std/src/"


def all_fns(toks):
    """[(name, body_start, body_end, line, header tokens)] for every fn with a body, at any depth"""
    out = []
    T = [t[1] for t in toks]
    i = 0
    while i < len(T) - 1:
        if T[i] == "fn" and toks[i][0] == "id" and toks[i + 1][0] == "id":
            j = i + 2
            while j < len(T) and T[j] not in ("{", ";"):
                if T[j] == "(":
                    j = sw.match_brace(toks, j, "(", ")")
                elif T[j] == "[":
                    j = sw.match_brace(toks, j, "[", "]")
                j += 1
            if j < len(T) and T[j] == "{":
                e = sw.match_brace(toks, j)
                out.append((T[i + 1], j, e, toks[i][2], T[i:j]))
                i = j  # nested fns inside bodies are rare; continue scanning inside
        i += 1
    return out


def depth_at(T, start, idx):
    d = 0
    for x in T[start:idx]:
        if x == "{":
            d += 1
        elif x == "}":
            d -= 1
    return d


def run(rep):
    rep.explanation = (
        "Decides three discipline clauses behind 'operations documented to revert do revert, others do not': std functions that switch a panic flag "
        "off restore the prior flags on every path; Vec / Bytes methods use an index for pointer arithmetic only after the documented bounds check; "
        "the U128 arithmetic impls guard overflow and zero divisors under the panic flags. Agreement of results with reference models is not decided.")
    rep.trusted = ["rules/lib/sw.py tokenizer", "std::flags::set_flags / disable_panic_* semantics", "assert / revert abort the transaction"]
    # ---- P1 ----------------------------------------------------------------------------------------------------------------
    import os
    from lib.common import REPO
    n1 = 0
    for root, _d, files in os.walk(os.path.join(REPO, STD)):
        for fn_ in sorted(files):
            if not fn_.endswith(".sw"):
                continue
            rel = os.path.relpath(os.path.join(root, fn_), REPO)
            if rel.endswith("flags.sw"):
                continue  # defines the primitives
            toks = sw.load(rel)
            T = [t[1] for t in toks]
            if "disable_panic_on_overflow" not in T and "disable_panic_on_unsafe_math" not in T:
                continue
            for name, bs, be, line, hdr in all_fns(toks):
                idxs = [i for i in range(bs, be) if T[i] in ("disable_panic_on_overflow", "disable_panic_on_unsafe_math") and T[i + 1] == "("]
                for i in idxs:
                    n1 += 1
                    key = f"{rel.split('/')[-1]}::{name}@{sum(1 for o in rep.obls if o['rule'].startswith('P1') and o['key'].startswith(rel.split('/')[-1] + '::' + name + '@')) + 1}"
                    # `let <prior> = disable_..();`
                    ok_bind = T[i - 1] == "=" and T[i - 3] == "let" and T[i + 2] == ")" and T[i + 3] == ";"
                    prior = T[i - 2] if ok_bind else None
                    if not ok_bind:
                        rep.ob("P1-flags-restored-on-every-path", key, False, rel, toks[i][2], f"{name}: the prior flags returned by {T[i]}() are not kept, so they cannot be restored")
                        continue
                    restores = [j for j in range(i, be) if T[j] == "set_flags" and T[j + 1] == "(" and T[j + 2] == prior and T[j + 3] == ")"]
                    top = [j for j in restores if depth_at(T, bs, j) == depth_at(T, bs, i)]
                    first = top[0] if top else None
                    # an early `return` is fine when the statement right before it restores the flags
                    early = [j for j in range(i, first if first else be) if T[j] == "return" and T[j - 5:j] != ["set_flags", "(", prior, ")", ";"]]
                    ok = first is not None and not early and depth_at(T, bs, i) == 1
                    rep.ob("P1-flags-restored-on-every-path", key, ok, rel, toks[i][2],
                           f"{name} switches a panic flag off ({T[i]}) and " + ("never restores the prior flags with set_flags(" + prior + ") at the same nesting level" if first is None else
                                                                              "can return before the flags are restored" if early else "does so inside a nested block") +
                           ": every later overflow / unsafe math in the caller would then wrap silently instead of reverting")
    rep.floor("P1-flags-restored-on-every-path", 18, n1)
    # ---- B1 ----------------------------------------------------------------------------------------------------------------
    n2 = 0
    for rel, coll in ((STD + "vec.sw", "Vec"), (STD + "bytes.sw", "Bytes")):
        toks = sw.load(rel)
        T = [t[1] for t in toks]
        for tr, ty, s, e, line in sw.impls(toks):
            if tr is not None or not ty.startswith(coll):
                continue
            for name, (bs, be, fl) in sw.fns(toks, s, e).items():
                # parameters: tokens between `fn name (` and `)`
                i = bs
                while T[i] != "fn" or T[i + 1] != name:
                    i -= 1
                po = T.index("(", i)
                pc = sw.match_brace(toks, po, "(", ")")
                ptoks = T[po + 1:pc]
                idx_params = [ptoks[k - 1] for k in range(1, len(ptoks)) if ptoks[k] == ":" and k + 1 < len(ptoks) and ptoks[k + 1] == "u64" and re.search(r"index|^mid$|^at$", ptoks[k - 1])]
                if name.endswith("_unchecked"):
                    continue  # documented as not checking
                for p in idx_params:
                    # first pointer arithmetic with p
                    uses = [k for k in range(bs, be) if T[k] == p and any(T[m] in ("add", "add_uint_offset", "sub", "sub_uint_offset") for m in range(max(bs, k - 8), k)) and
                            "(" in T[max(bs, k - 8):k]]
                    if not uses:
                        continue
                    n2 += 1
                    first = uses[0]
                    pre = "".join(T[bs:first])
                    guards = [rf"assert\({p}<self\.len(\(\))?\)", rf"assert\({p}<=self\.len(\(\))?\)", rf"assert\(self\.len(\(\))?>{p}\)", rf"assert\(self\.len(\(\))?>={p}\)",
                              rf"ifself\.len(\(\))?<={p}\{{return", rf"if{p}>=self\.len(\(\))?\{{return", rf"ifself\.len(\(\))?<{p}\{{return", rf"if{p}>self\.len(\(\))?\{{return",
                              rf"require\({p}<self\.len", rf"if{p}>=self\.len(\(\))?\{{(__)?revert", rf"ifself\.len(\(\))?<={p}\{{(__)?revert"]
                    ok = any(re.search(g, pre) for g in guards)
                    rep.ob("B1-index-checked-before-pointer-arithmetic", f"{coll}::{name}({p})", ok, rel, toks[first][2],
                           f"{coll}::{name} uses `{p}` for pointer arithmetic without a preceding `assert({p} < self.len)` / `if self.len <= {p} {{ return None }}`: an out-of-range "
                           "index would read or write past the buffer instead of reverting / returning None as documented")
    rep.floor("B1-index-checked-before-pointer-arithmetic", 8, n2)
    # ---- B2 ----------------------------------------------------------------------------------------------------------------
    rel = STD + "u128.sw"
    toks = sw.load(rel)
    T = [t[1] for t in toks]
    want = {"Add": ("add", "panic_on_overflow_enabled"), "Subtract": ("subtract", "panic_on_overflow_enabled"), "Multiply": ("multiply", "panic_on_overflow_enabled"),
            "Divide": ("divide", "panic_on_unsafe_math_enabled"), "Mod": ("modulo", "panic_on_unsafe_math_enabled")}
    seen = set()
    for tr, ty, s, e, line in sw.impls(toks):
        if tr in want and ty == "U128":
            seen.add(tr)
            fname, flag = want[tr]
            fs = sw.fns(toks, s, e)
            if fname not in fs:
                rep.ob("B2-wide-arithmetic-guarded", f"{tr} for U128", False, rel, line, f"impl {tr} for U128 has no fn {fname}")
                continue
            bs, be, fl = fs[fname]
            body = T[bs:be + 1]
            flags_q = [k for k, x in enumerate(body) if x in ("panic_on_overflow_enabled", "panic_on_unsafe_math_enabled")]
            asserts = [k for k, x in enumerate(body) if x in ("assert", "revert", "__revert", "require")]
            ok = bool(flags_q) and any(a > flags_q[0] for a in asserts)
            rep.ob("B2-wide-arithmetic-guarded", f"{tr} for U128", ok, rel, fl,
                   f"U128::{fname} must assert its {'overflow/underflow' if 'overflow' in flag else 'zero divisor'} case under a panic-flag query (the project's tests fix which flag)")
    rep.ob("B2-wide-arithmetic-impls-present", "U128", seen == set(want), rel, 0, f"arithmetic impls found for U128: {sorted(seen)}")
