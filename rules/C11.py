"""C11 Contract calls dispatch to the named method with intact arguments -- protocol agreement between the caller-side
desugaring, the std `contract_call`, and the generated `__entry` dispatcher.

The dispatcher is Sway source text produced by format! templates in generate_contract_entry. The rules read the
templates (rendered with their captures kept symbolic and tokenised as Sway) and the provenance of every capture in the
generator's syntax tree. They decide the agreement clauses without which a call cannot reach the named method:

G1 an arm is filed under, and guarded by, the length of its own method name; the guard reads the selector length
G2 the name offset baked into an arm addresses this method's name inside the names blob (find-or-append, or append)
G3 the arm compares `len` bytes of the selector with the blob at that offset (meq operands), and branches on the result
G4 the arm calls `__contract_entry_<the same name>`; that is the name under which contract methods are registered
G5 arguments are decoded as the tuple of the declared parameter types in order and passed as args.0, args.1, .. in order
G6 every arm ends by returning to the caller (a call that does not return) -- no fall-through into another method / fallback
G7 the fallback follows the arms; without a fallback the entry reverts; with one it calls that function and returns
G8 two methods with the same name are rejected
G9 selector layout: the entry reads a u64 length from the first call parameter and compares the bytes after it; the
   arguments come from the second parameter; the caller writes u64 big-endian length followed by the name bytes
K  positional agreement along the call path: desugared call -> std contract_call parameters -> call-frame tuple
   (contract id, selector pointer, arguments pointer) -> __contract_call intrinsic -> IR contract_call -> CALL operands
"""
import re
from lib import tab, sw
from lib.common import AnalysisError

LEVEL = "other"
GEN = "sway-core/src/semantic_analysis/ast_node/declaration/auto_impl/abi_encoding.rs"
MAPP = "sway-core/src/semantic_analysis/ast_node/expression/typed_expression/method_application.rs"
DECL = "sway-core/src/semantic_analysis/ast_node/declaration/declaration.rs"
IRGEN = "sway-core/src/ir_generation/function.rs"
ASMB = "sway-core/src/asm_generation/fuel/fuel_asm_builder.rs"
CODEC = "sway-lib-std/src/codec.sw"
FRAMES = "sway-lib-std/src/call_frames.sw"
PH = re.compile(r"__PH_(\w+?)__")


class Gen:
    """the generator function: let-bindings with shadowing, templates, pushes"""
    def __init__(self, f):
        self.f = f
        self.lets = tab.lets(f["body"])
        # a binding is visible only after its own statement: remember where each `let` ends
        self.let_end = {}
        for n in tab.walk(f["body"]):
            if n.get("k") == "Let":
                self.let_end[n["l"]] = max([x.get("l", n["l"]) for x in tab.walk(n) if isinstance(x.get("l"), int)] + [n["l"]])
        self.closure_params = []  # (line_from, line_to, name, closure node, index in tuple pattern or None)
        for n in tab.walk(f["body"]):
            if n.get("k") == "Closure":
                lo = n["l"]
                hi = max([x.get("l", lo) for x in tab.walk(n["body"]) if isinstance(x.get("l"), int)] + [lo])
                for p in n["inputs"]:
                    if p.get("k") == "PTuple":
                        for i, e in enumerate(p["elems"]):
                            if e.get("k") == "PIdent":
                                self.closure_params.append((lo, hi, e["name"], n, i))
                    elif p.get("k") == "PIdent":
                        self.closure_params.append((lo, hi, p["name"], n, None))

    def def_of(self, name, line):
        """nearest `let` binding `name` at or before `line`: (line, pat, init) or None"""
        best = None
        for l, names, pat, init in self.lets:
            if name in names and l < line and (self.let_end.get(l, l) < line or self.let_end.get(l, l) == l):
                best = (l, pat, init)
        return best

    def chain(self, name, line, depth=6):
        """show() of the successive definitions of a (shadowed) name, newest first"""
        out = []
        while depth > 0:
            depth -= 1
            d = self.def_of(name, line)
            if d is None:
                break
            out.append(d)
            line = d[0]
            # keep following only when the initialiser mentions the same name (shadowing chain)
            if name not in [x.get("path") for x in tab.walk(d[2] or {}) if x.get("k") == "Path"]:
                break
        return out

    def in_closure_param(self, name, line):
        return any(lo <= line <= hi and nm == name for lo, hi, nm, _, _ in self.closure_params)

    def variants_of(self, name, line, depth=0):
        """the possible texts a string-valued variable holds, as far as it is built by format!/join/if in this function;
        anything else stays an opaque `__PH_<name>__`"""
        opaque = [f"__PH_{name}__"]
        if depth > 6 or self.in_closure_param(name, line):
            return opaque
        d = self.def_of(name, line)
        if d is None or d[2] is None:
            return opaque
        v = self.expr_variants(d[2], d[0], depth + 1)
        return v if v else opaque

    def expr_variants(self, e, line, depth):
        k = e.get("k")
        if k == "Macro" and e.get("name") == "format" and e.get("args") and e["args"][0].get("t") == "str":
            return self.expand_text(e["args"][0]["v"], e["l"], depth)
        if k == "Lit" and e.get("t") == "str":
            return [e["v"]]
        if k == "Path" and re.fullmatch(r"\w+", e["path"]):
            return self.variants_of(e["path"], line, depth)
        if k == "Block":
            return self.expr_variants(e["stmts"][-1], e["stmts"][-1].get("l", line), depth) if e["stmts"] and not e["stmts"][-1].get("semi") else None
        if k == "If" and e.get("else"):
            a = self.expr_variants(e["then"], line, depth)
            b = self.expr_variants(e["else"], line, depth)
            return (a + b)[:8] if a and b else None
        if k == "MethodCall" and e["method"] in ("to_string", "into", "to_owned", "clone") and not e["args"]:
            return self.expr_variants(e["recv"], line, depth)
        if k == "MethodCall" and e["method"] == "join" and e["recv"].get("k") == "MethodCall" and e["recv"]["method"] == "map" and \
                e["recv"]["args"] and e["recv"]["args"][0].get("k") == "Closure" and e["args"] and e["args"][0].get("k") == "Lit":
            body = self.expr_variants(e["recv"]["args"][0]["body"], e["recv"]["args"][0]["l"], depth)
            sep = e["args"][0]["v"]
            return [b + sep + b for b in body][:8] if body else None  # two repetitions stand for "one or more"
        return None

    def expand_text(self, template, line, depth=0):
        outs = [""]
        i = 0
        while i < len(template):
            c = template[i]
            if c in "{}" and template[i:i + 2] == c * 2:
                outs = [o + c for o in outs]
                i += 2
                continue
            if c == "{":
                j = template.index("}", i)
                name = template[i + 1:j].split(":")[0].strip()
                vs = self.variants_of(name, line, depth) if re.fullmatch(r"\w+", name) else [f"__PH_{name}__"]
                outs = [o + v for o in outs for v in vs][:8]
                i = j + 1
                continue
            outs = [o + c for o in outs]
            i += 1
        return outs

    def templates(self):
        """(line, template, kind) of every format! string and every literal pushed with push_str"""
        out = []
        for n in tab.walk(self.f["body"]):
            if n.get("k") == "Macro" and n.get("name") == "format" and n.get("args") and n["args"][0].get("t") == "str":
                out.append((n["l"], n["args"][0]["v"], n))
            if n.get("k") == "MethodCall" and n["method"] == "push_str" and n["args"] and n["args"][0].get("k") == "Lit":
                out.append((n["l"], n["args"][0]["v"].replace("{", "{{").replace("}", "}}"), n))
        out.sort(key=lambda x: x[0])
        return out


def only(xs, what):
    if len(xs) != 1:
        raise AnalysisError(f"C11: expected exactly one {what}, found {len(xs)}")
    return xs[0]


def sway_tokens(text):
    return [t[1] for t in sw.tokenize(text)]


def rule_generator(rep):
    t = tab.tree(GEN)
    f = tab.fn(t, "generate_contract_entry")
    g = Gen(f)
    tpls = g.templates()
    loops = [n for n in tab.walk(f["body"]) if n.get("k") == "For" and "contract_fns" in tab.show(n["iter"])]
    loop = only(loops, "loop over contract_fns in generate_contract_entry")
    llo = loop["l"]
    lhi = max(x.get("l", llo) for x in tab.walk(loop["body"]) if isinstance(x.get("l"), int))
    in_loop = lambda l: llo <= l <= lhi
    loop_var = tab.show(loop["pat"])
    # the per-iteration declaration: `let decl = engines.de().get(<loop var>)`
    decl_lets = [(l, names, init) for l, names, pat, init in g.lets if in_loop(l) and init is not None and re.fullmatch(r".*\.get\(&?%s\)" % re.escape(loop_var), tab.show(init))]
    dl = only(decl_lets, "binding of the method declaration inside the loop")
    decl = dl[1][0]

    def resolve(name, line):
        d = g.def_of(name, line)
        return tab.show(d[2]) if d and d[2] is not None else None

    NAME_OF_DECL = re.compile(r"^%s\.name\.(as_str|as_raw_ident_str)\(\)$" % re.escape(decl))

    def is_own_name(var, line):
        r = resolve(var, line)
        return bool(r and NAME_OF_DECL.match(r)), r

    # ---- G3: the comparison template -----------------------------------------------------------------------------------
    cmp_t = only([x for x in tpls if in_loop(x[0]) and re.search(r"\bmeq\b", x[1])], "dispatch-arm template containing `meq`")
    line = cmp_t[0]
    text = tab.render(cmp_t[1])
    toks = sway_tokens(text)
    # asm(<reg>[: init], ...) { instr; ...; ret: ty }
    ai = toks.index("asm")
    close = sw.match_brace([(None, x, 0) for x in toks], ai + 1, "(", ")")
    regs = {}
    cur = []
    for x in toks[ai + 2:close] + [","]:
        if x == ",":
            if cur:
                regs[cur[0]] = "".join(cur[2:]) if len(cur) > 2 else None
            cur = []
        else:
            cur.append(x)
    bopen = close + 1
    bclose = sw.match_brace([(None, x, 0) for x in toks], bopen, "{", "}")
    instrs = []
    cur = []
    for x in toks[bopen + 1:bclose] + [";"]:
        if x == ";":
            if cur:
                instrs.append(cur)
            cur = []
        else:
            cur.append(x)
    meqs = [i for i in instrs if i[0] == "meq"]
    ok_shape = len(meqs) == 1 and len(meqs[0]) == 5
    rep.ob("G3-compare-shape", "dispatch arm", ok_shape, GEN, line, "the dispatch arm must compare the selector with exactly one `meq dst a b len`")
    if not ok_shape:
        return
    _, dst, a, b, ln_reg = meqs[0]
    # value of each register at the meq: follow addi/move within the asm block
    origin = {r: ("init", v) for r, v in regs.items()}
    for ins in instrs:
        if ins is meqs[0]:
            break
        if ins[0] == "addi" and len(ins) == 4:
            origin[ins[1]] = ("addi", origin.get(ins[2], ("?", None)), ins[3])
        elif ins[0] == "add" and len(ins) == 4:
            origin[ins[1]] = ("add", origin.get(ins[2], ("?", None)), origin.get(ins[3], ("?", None)))
        elif ins[0] in ("move", "move") and len(ins) == 3:
            origin[ins[1]] = origin.get(ins[2], ("?", None))
        else:
            origin[ins[1]] = ("?", None)
    oa, ob, ol = origin.get(a), origin.get(b), origin.get(ln_reg)
    sel = [o for o in (oa, ob) if o and o[0] == "init"]
    blob = [o for o in (oa, ob) if o and o[0] == "addi"]
    ok_ops = len(sel) == 1 and len(blob) == 1
    rep.ob("G3-compare-operands", "dispatch arm", ok_ops, GEN, line,
           f"`meq` must compare the selector pointer with (names blob + this method's offset); operands are {oa} and {ob}")
    if not ok_ops:
        return
    sel_var, blob_base, off_imm = sel[0][1], blob[0][1], blob[0][2]
    m_off = re.fullmatch(r"i" + PH.pattern, off_imm)
    rep.ob("G3-compare-operands", "offset immediate", bool(m_off) and blob_base[0] == "init", GEN, line,
           f"the blob operand must be `addi r <names pointer> i{{offset}}` with the method's offset as immediate; found {blob[0]}")
    # len register: own name length (G1)
    m_len = PH.fullmatch(ol[1] or "") if ol and ol[0] == "init" else None
    len_src = resolve(m_len.group(1), line) if m_len else None
    ok_len = bool(len_src) and bool(re.fullmatch(r"(\w+)\.len\(\)", len_src)) and is_own_name(re.fullmatch(r"(\w+)\.len\(\)", len_src).group(1), line)[0]
    rep.ob("G1-compared-length-is-own-name-length", "dispatch arm", ok_len, GEN, line,
           f"the number of bytes compared must be the length of this method's name; the len register is initialised from `{len_src}`")
    # result register returned and branched on
    ret = instrs[-1] if instrs else []
    rep.ob("G3-branch-on-comparison", "dispatch arm", len(ret) >= 1 and ret[0] == dst, GEN, line, f"the asm block must return the meq result register `{dst}`; it returns `{' '.join(ret)}`")
    mvar = re.search(r"let\s+(\w+)\s*=\s*asm", text)
    rest = text[text.index("}", text.index("meq")):]
    ok_if = bool(mvar) and bool(re.search(r"\bif\s+%s\s*\{\s*$" % re.escape(mvar.group(1)), rest.strip() + "\n".strip()))
    rep.ob("G3-branch-on-comparison", "arm guard", ok_if, GEN, line, "the arm body must be guarded by `if <comparison result> {` with nothing in between")
    # ---- G2: offset provenance -----------------------------------------------------------------------------------------
    off_var = m_off.group(1) if m_off else None
    od = g.def_of(off_var, line) if off_var else None
    names_var = None
    ok_off = False
    why = "offset binding not found"
    if od and od[2] is not None:
        init = od[2]
        why = f"`{tab.show(init)[:160]}` is not find-or-append / append of this method's name"
        if init.get("k") == "If" and init["cond"].get("k") == "LetCond" and init["cond"]["expr"].get("k") == "MethodCall" and init["cond"]["expr"]["method"] == "find":
            c = init["cond"]
            names_var = tab.show(c["expr"]["recv"])
            needle = tab.show(c["expr"]["args"][0]).lstrip("&")
            then_val = tab.show(init["then"]["stmts"][-1]) if init["then"]["stmts"] else ""
            some_b = [x["name"] for x in tab.walk(c["pat"]) if x.get("k") == "PIdent"]
            el = init.get("else") or {}
            st = el.get("stmts", [])
            shown = [tab.show(x) for x in st]
            # else: let o = names.len(); names.push_str(name); o
            i_len = [i for i, x in enumerate(shown) if re.fullmatch(r"let \w+=%s\.len\(\)" % re.escape(names_var), x)]
            i_push = [i for i, x in enumerate(shown) if re.fullmatch(r"%s\.push_str\(&?%s\)" % (re.escape(names_var), re.escape(needle)), x)]
            ok_else = len(i_len) == 1 and len(i_push) == 1 and i_len[0] < i_push[0] and shown[-1] == shown[i_len[0]].split("=")[0].replace("let ", "")
            ok_off = is_own_name(needle, od[0])[0] and then_val in some_b and ok_else
            if not is_own_name(needle, od[0])[0]:
                why = f"the name searched for / appended (`{needle}`) is not this method's name"
            elif then_val not in some_b:
                why = "the found offset is not the one used"
            elif not ok_else:
                why = "when the name is not in the blob yet its offset must be the blob length *before* the name is appended, and the name must be appended"
        else:
            # plain append: let offset = names.len(); names.push_str(name) afterwards
            m = re.fullmatch(r"(\w+)\.len\(\)", tab.show(init))
            if m:
                names_var = m.group(1)
                pushes = [n for n in tab.walk(loop["body"]) if n.get("k") == "MethodCall" and n["method"] == "push_str" and tab.show(n["recv"]) == names_var]
                ok_off = len(pushes) == 1 and pushes[0]["l"] > od[0] and is_own_name(tab.show(pushes[0]["args"][0]).lstrip("&"), pushes[0]["l"])[0]
    rep.ob("G2-offset-addresses-own-name", "dispatch arm", ok_off, GEN, od[0] if od else line, why)
    # ---- G1: bucket --------------------------------------------------------------------------------------------------------
    entries = [n for n in tab.walk(loop["body"]) if n.get("k") == "MethodCall" and n["method"] == "entry"]
    # the bucket map is the one whose entry becomes the string the comparison template is appended to
    cmp_recv = [tab.show(n["recv"]) for n in tab.walk(loop["body"]) if n.get("k") == "MethodCall" and n["method"] == "push_str" and cmp_t[2] in list(tab.walk(n))]
    bucket_entries = [n for n in entries if any(names and names[0] in cmp_recv and init is not None and n in list(tab.walk(init)) for l_, names, _, init in g.lets)]
    e = only(bucket_entries or entries, "`.entry(..)` bucket selection in the loop")
    # ---- G10: every method gets its arm ---------------------------------------------------------------------------------
    skips = [n for n in tab.walk(loop["body"]) if n.get("k") in ("Continue", "Break") or (n.get("k") == "Return")]
    top = [st for st in loop["body"]["stmts"] if cmp_t[2] in list(tab.walk(st))]
    rep.ob("G10-every-method-gets-a-dispatch-arm", "loop over contract_fns", not skips and len(top) == 1, GEN, skips[0]["l"] if skips else loop["l"],
           "an iteration of the loop over the contract's methods can be left (`continue` / `break` / `return`) or the comparison is appended only conditionally: "
           "a declared method would get no dispatch arm, and a call naming it would run the fallback or revert")
    bucket_var = tab.show(e["recv"])
    key = tab.show(e["args"][0])
    mk = re.fullmatch(r"(\w+)\.len\(\)", key) or (re.fullmatch(r"(\w+)\.len\(\)", resolve(key, e["l"]) or "") if re.fullmatch(r"\w+", key) else None)
    rep.ob("G1-arm-filed-under-own-name-length", "dispatch arm", bool(mk) and is_own_name(mk.group(1), e["l"])[0], GEN, e["l"],
           f"the arm is filed under `{key}`, which is not the length of this method's name")
    # the arm text is appended to that bucket: the receiver of the push of the comparison template
    code_var_def = [(l, names, init) for l, names, pat, init in g.lets if in_loop(l) and init is not None and e in list(tab.walk(init))]
    cv = only(code_var_def, "binding of the bucket's code string")[1][0]
    pushes = [n for n in tab.walk(loop["body"]) if n.get("k") == "MethodCall" and n["method"] == "push_str"]
    arm_pushes = [n for n in pushes if tab.show(n["recv"]) == cv]
    cmp_push = [n for n in arm_pushes if cmp_t[2] in list(tab.walk(n))]
    rep.ob("G1-arm-filed-under-own-name-length", "comparison appended to the bucket", len(cmp_push) == 1, GEN, line,
           f"the comparison must be appended to the bucket selected by the name length (`{cv}`)")
    # outer guard template: if _method_len == {len} { {code} } over arm_by_size.iter()
    outer = [x for x in tpls if not in_loop(x[0]) and re.search(r"\bif\b[^{]*==", x[1]) and len(tab.placeholders(x[1])) == 2]
    o = only(outer, "length-bucket guard template")
    otext = tab.render(o[1])
    mo = re.search(r"if\s+(\w+)\s*==\s*" + PH.pattern + r"\s*\{\s*" + PH.pattern + r"\s*\}", otext)
    ok_outer = False
    sel_len_var = None
    if mo:
        sel_len_var, kvar, cvar = mo.group(1), mo.group(2), mo.group(3)
        cps = [c for c in g.closure_params if c[0] <= o[0] <= c[1]]
        kpos = [c for c in cps if c[2] == kvar]
        cpos = [c for c in cps if c[2] == cvar]
        if kpos and cpos and kpos[0][3] is cpos[0][3]:
            # the closure is the argument of .map() on <bucket_var>.iter()/into_iter()
            src = [n for n in tab.walk(f["body"]) if n.get("k") == "MethodCall" and n["method"] == "map" and n["args"] and n["args"][0] is kpos[0][3]]
            ok_outer = bool(src) and re.fullmatch(r"%s\.(iter|into_iter)\(\)" % re.escape(bucket_var), tab.show(src[0]["recv"])) is not None and kpos[0][4] == 0 and cpos[0][4] == 1
    rep.ob("G1-bucket-guarded-by-its-length", "entry", ok_outer, GEN, o[0],
           "each bucket's arms must be wrapped in `if <selector length> == <bucket key> { <bucket code> }` over the (key, code) pairs of the bucket map")
    # ---- G4: callee name ---------------------------------------------------------------------------------------------------
    call_t = [x for x in tpls if in_loop(x[0]) and "__contract_entry_" in x[1]]
    rep.floor("G4-arm-calls-the-compared-method", 1, len(call_t))
    cmp_name = None
    if ok_off and od:  # the name whose offset the arm compares at
        nn = [tab.show(n["args"][0]).lstrip("&") for n in tab.walk(loop["body"]) if n.get("k") == "MethodCall" and n["method"] == "push_str" and tab.show(n["recv"]) == names_var]
        cmp_name = resolve(nn[0], od[0] + 1) if nn else None
    elif len_src:
        cmp_name = resolve(re.fullmatch(r"(\w+)\.len\(\)", len_src).group(1), line)
    for l, tp, node in call_t:
        r = tab.render(tp)
        m = re.search(r"__contract_entry_" + PH.pattern + r"\s*\(", r)
        nm = resolve(m.group(1), l) if m else None
        rep.ob("G4-arm-calls-the-compared-method", f"call template#{call_t.index((l, tp, node)) + 1}", bool(m) and nm is not None and nm == cmp_name and bool(NAME_OF_DECL.match(nm)), GEN, l,
               f"the arm must call `__contract_entry_<name>` for the name it compared (`{cmp_name}`); it interpolates `{nm}`")
        # appended to the same bucket after the comparison
        p = [n for n in arm_pushes if node in list(tab.walk(n))]
        rep.ob("G4-arm-calls-the-compared-method", f"call template#{call_t.index((l, tp, node)) + 1} placement", len(p) == 1 and l > line, GEN, l,
               "the call must be appended to the same bucket string after the comparison")
    # registration under the same prefix
    td = tab.tree(DECL)
    regs_ = [n for n in tab.walk(td) if n.get("k") == "Macro" and n.get("name") == "format" and n.get("args") and n["args"][0].get("t") == "str" and n["args"][0]["v"].startswith("__contract_entry_")]
    rep.ob("G4-methods-registered-under-the-called-name", "declaration.rs", len(regs_) == 1 and re.fullmatch(r"__contract_entry_\{\w*\}", regs_[0]["args"][0]["v"]) is not None and
           (len(regs_[0]["args"]) < 2 or re.fullmatch(r"\w+\.name(\.clone\(\)|\.as_str\(\))?", tab.show(regs_[0]["args"][1])) is not None), DECL, regs_[0]["l"] if regs_ else 0,
           "contract methods must be registered as `__contract_entry_<method name>`, the symbol the dispatcher calls")
    # ---- G5: arguments -----------------------------------------------------------------------------------------------------
    with_args = [x for x in call_t if "decode_from_raw_ptr" in x[1]]
    wa = only(with_args, "call template that decodes arguments")
    r = tab.render(wa[1])
    m = re.search(r"let\s+(\w+)\s*:\s*" + PH.pattern + r"\s*=\s*decode_from_raw_ptr::<" + PH.pattern + r">\((\w+)\)", r)
    mc = re.search(r"__contract_entry_" + PH.pattern + r"\s*\(\s*" + PH.pattern + r"\s*\)", r)
    ok5 = bool(m) and bool(mc) and m.group(2) == m.group(3)
    rep.ob("G5-arguments-decoded-as-declared-tuple", "template", ok5, GEN, wa[0], "arguments must be decoded with `let args: {T} = decode_from_raw_ptr::<{T}>(buffer)` using one and the same type, and passed as `{expanded}`")
    if ok5:
        args_local, tvar, bufvar, evar = m.group(1), m.group(2), m.group(4), mc.group(2)
        tchain = [tab.show(d[2]) for d in g.chain(tvar, wa[0])]
        PARAMS = r"%s\.parameters\.iter\(\)" % re.escape(decl)
        base = [c for c in tchain if re.search(PARAMS + r"\.map\(", c)]
        inter = [c for c in tchain if re.search(r"intersperse\(%s,['\"], ['\"]\.into\(\)\)\.collect" % re.escape(tvar), c)]
        tup = [c for c in tchain if re.search(r"format!\('\(\{%s\},\)'\)" % re.escape(tvar), c)]
        bad_adapters = [c for c in tchain if re.search(r"\.(rev|skip|take|filter|step_by|skip_while|take_while)\(", c)]
        type_from_param = bool(base) and re.search(r"\|(\w+)\|.*generate_type\([^)]*&?\1\.type_argument\)", base[0]) is not None
        rep.ob("G5-arguments-decoded-as-declared-tuple", "types", bool(base) and bool(inter) and bool(tup) and not bad_adapters and type_from_param, GEN, wa[0],
               f"the decoded type must be the tuple `({{types}},)` of every declared parameter's type in declaration order; derivation: {tchain}")
        echain = [tab.show(d[2]) for d in g.chain(evar, wa[0])]
        me = re.search(PARAMS + r"\.enumerate\(\)\.map\(\|\((\w+),\w+\)\|format!\('(\w+)\.\{\1\}'\)\)", echain[0] if echain else "")
        rep.ob("G5-arguments-passed-in-order", "expansion", bool(me) and me.group(2) == args_local and not re.search(r"\.(rev|skip|take|filter|step_by)\(", echain[0]) and "intersperse(" in echain[0], GEN, wa[0],
               f"the call must pass `{args_local}.0, {args_local}.1, ..` for every declared parameter in order; derivation: {echain[:1]}")
    # ---- G6: every arm returns -------------------------------------------------------------------------------------------------
    # codec.sw: encode_and_return never returns
    ctoks = sw.load(CODEC)
    fs = sw.fns(ctoks, 0, len(ctoks) - 1)
    nonret = {"__contract_ret", "__revert"}
    if "encode_and_return" in fs:
        bs, be, hl = fs["encode_and_return"]
        # header tokens precede the body: look for `-> !`
        j = bs
        while j > 0 and ctoks[j][1] != "fn":
            j -= 1
        hdr = sw.texts(ctoks, j, bs)
        if re.search(r"->\s*!", " ".join(hdr)) or ("->" in hdr and hdr[hdr.index("->") + 1] == "!"):
            nonret.add("encode_and_return")
    stmts = loop["body"]["stmts"]
    # statements after the last call-template push: every path must push a non-returning call, then the closing brace
    last_call_line = max(x[0] for x in call_t)
    tail = [s_ for s_ in stmts if s_["l"] > last_call_line and any(n.get("k") == "MethodCall" and n["method"] == "push_str" and tab.show(n["recv"]) == cv for n in tab.walk(s_))]

    def pushed(node):
        return [(n["l"], tab.render(x[1])) for n in tab.walk(node) if n.get("k") == "MethodCall" and n["method"] == "push_str" and tab.show(n["recv"]) == cv
                for x in tpls if x[2] in list(tab.walk(n)) or x[2] is n]

    def returns(node):
        """every path through `node` appends a call that does not return"""
        if node.get("k") == "If":
            return bool(node.get("else")) and returns(node["then"]) and returns(node["else"])
        if node.get("k") == "Block":
            return any(returns(x) for x in node["stmts"])
        return any(re.search(r"\b(%s)\s*(::<[^>]*>)?\s*\(" % "|".join(sorted(nonret)), txt) for _, txt in pushed(node))
    ret_ok = any(returns(s_) for s_ in tail)
    closes = [i for i, s_ in enumerate(tail) if any(txt.strip() == "}" for _, txt in pushed(s_))]
    ret_i = [i for i, s_ in enumerate(tail) if returns(s_)]
    rep.ob("G6-arm-always-returns", "dispatch arm", ret_ok and bool(closes) and ret_i[0] < closes[-1], GEN, last_call_line,
           f"after calling the method every path must append a call that does not return ({sorted(nonret)}) before the arm is closed; "
           "otherwise execution falls through into the following arms / the fallback")
    # ---- G7: fallback ----------------------------------------------------------------------------------------------------------
    entry_t = only([x for x in tpls if "fn __entry" in x[1]], "entry-function template")
    et = tab.render(entry_t[1])
    # the fallback variable: bound by `if let Some(..) = <fallback fn> {..} else {..}`
    fb_lets = [(l, names[0]) for l, names, pat, init in g.lets if init is not None and init.get("k") == "If" and init["cond"].get("k") == "LetCond" and
               "Some" in tab.show(init["cond"]["pat"]) and "fallback" in tab.show(init["cond"]["expr"])]
    fbl = only(fb_lets, "binding of the fallback code")
    fbv = [fbl[1]]
    FB = f"__PH_{fbv[0]}__"
    # every text the entry function can take, with string-building (format!/join/if) expanded and everything else opaque
    saved = g.lets
    g.lets = [x for x in g.lets if not (x[0] == fbl[0])]  # keep the fallback opaque
    variants = g.expand_text(entry_t[1], entry_t[0])
    g.lets = saved
    sel_len_guess = re.search(r"if\s+(\w+)\s*==", tab.render(o[1])).group(1) if re.search(r"if\s+(\w+)\s*==", tab.render(o[1])) else None
    ok7, why7 = True, ""
    for vtext in variants:
        vt = sway_tokens(vtext)
        W = [(None, x, 0) for x in vt]
        try:
            fi = next(i_ for i_ in range(len(vt) - 1) if vt[i_] == "fn" and vt[i_ + 1] == "__entry")
            bo = vt.index("{", fi)
            bc = sw.match_brace(W, bo, "{", "}")
        except (StopIteration, ValueError):
            raise AnalysisError("C11 G7: cannot find the body of fn __entry in the rendered entry template")
        depth_ = 0
        guard = None
        for i_ in range(bo + 1, bc):
            if vt[i_] == "{":
                depth_ += 1
            elif vt[i_] == "}":
                depth_ -= 1
            elif depth_ == 0 and vt[i_] == "if" and vt[i_ + 1] == sel_len_guess and vt[i_ + 2] == "==":
                guard = i_
                break
        if guard is None:
            good = FB in vt[bo + 1:bc]
            if not good:
                ok7, why7 = False, "a variant of the entry has neither dispatch arms nor the fallback"
            continue
        blocks = []
        j_ = sw.match_brace(W, vt.index("{", guard), "{", "}")
        blocks.append((vt.index("{", guard), j_))
        while j_ + 1 < bc and vt[j_ + 1] == "else":
            k_ = vt.index("{", j_ + 1)
            e_ = sw.match_brace(W, k_, "{", "}")
            if vt[j_ + 2] == "if":
                blocks.append((k_, e_))
            j_ = e_
        tail = vt[j_ + 1:bc]
        each_bucket_ends_with_fb = all(FB in vt[a_:b_][-3:] for a_, b_ in blocks)
        if not (FB in tail or each_bucket_ends_with_fb):
            ok7 = False
            why7 = ("when a bucket of the right length is entered and no name in it matches, control leaves the if-chain; the fallback / revert must come "
                    "after the chain (or end every bucket), but in this shape it is only reached when no bucket is entered: " + " ".join(vt[guard:bc])[:300])
        if FB in tail and tail and tail[-1] not in (FB, ";"):
            pass
    rep.ob("G7-fallback-follows-the-arms", "entry", ok7, GEN, entry_t[0], why7 or "the fallback must be reached whenever no arm returned")
    if fbv:
        fd = g.def_of(fbv[0], entry_t[0])
        init = fd[2] if fd else None
        ok_some = ok_none = False
        if init and init.get("k") == "If" and init["cond"].get("k") == "LetCond" and "Some" in tab.show(init["cond"]["pat"]):
            then_t = [tab.render(x[1]) for x in tpls if x[2] in list(tab.walk(init["then"]))]
            else_t = [tab.render(x[1]) for x in tpls if x[2] in list(tab.walk(init.get("else") or {}))]
            fb_bind = [x["name"] for x in tab.walk(init["cond"]["pat"]) if x.get("k") == "PIdent"]
            for tt in then_t:
                mm = re.search(PH.pattern + r"\s*\(\s*\)", tt)
                if mm:
                    src = None
                    for l, names, pat, i2 in tab.lets(init["then"]):
                        if mm.group(1) in names and i2 is not None:
                            src = tab.show(i2)
                    ok_some = bool(src) and re.fullmatch(r"(\w+)\.name\.(as_str|as_raw_ident_str)\(\)", src) is not None and "__contract_ret" in tt
            ok_none = any(re.search(r"\b__revert\s*\(", tt) for tt in else_t) and not any("__contract_entry_" in tt for tt in else_t)
        rep.ob("G7-fallback-calls-the-declared-fallback", "Some(fallback)", ok_some, GEN, fd[0] if fd else 0, "with a fallback declared, unmatched selectors must call that function and return its result")
        rep.ob("G7-no-fallback-reverts", "None", ok_none, GEN, fd[0] if fd else 0, "without a fallback, unmatched selectors must revert")
    # ---- G8: duplicate names rejected -------------------------------------------------------------------------------------------
    dup = [n for n in tab.walk(f["body"]) if n.get("k") == "Binary" and n["op"] == ">" and re.fullmatch(r"\w+\.len\(\)", tab.show(n["left"])) and tab.show(n["right"]) == "1"]
    errs = [n for n in tab.walk(f["body"]) if n.get("k") in ("Path", "Struct") and n["path"].endswith("MultipleContractsMethodsWithTheSameName")]
    tries = [n for n in tab.walk(f["body"]) if n.get("k") == "Try" and errs and errs[0] in list(tab.walk(n))]
    ins = [n for n in tab.walk(loop["body"]) if n.get("k") == "MethodCall" and n["method"] in ("insert", "entry", "get_mut") and re.search(r"\bname\b|method_name", tab.show(n)) and "contract_methods" in tab.show(n["recv"])]
    rep.ob("G8-duplicate-names-rejected", "generate_contract_entry", bool(dup) and bool(errs) and bool(tries) and bool(ins), GEN, errs[0]["l"] if errs else f["l"],
           "two methods of the same name must make entry generation fail (collected per name, error when a name has more than one span, propagated with `?`)")
    # ---- G9: selector layout (callee side) -----------------------------------------------------------------------------------------
    st = sway_tokens(et)
    joined = " ".join(st)
    m1 = re.search(r"let (?:mut )?(\w+) = BufferReader :: from_first_parameter \( \)", joined)
    m2 = re.search(r"let (?:mut )?(\w+) = BufferReader :: from_second_parameter \( \)", joined)
    mr = re.search(r"let (?:mut )?(\w+) = BufferReader \{ ptr : %s \}" % m1.group(1), joined) if m1 else None
    mlen = re.search(r"let (\w+) = %s \. read :: < u64 > \( \)" % mr.group(1), joined) if mr else None
    mptr = re.search(r"let (\w+) = %s \. ptr \( \)" % mr.group(1), joined) if mr else None
    if not (m1 and m2 and mr and mlen and mptr):
        raise AnalysisError("C11 G9: the entry template's selector-reading prologue has a shape this rule does not understand "
                            "(expected a BufferReader over from_first_parameter(), a read::<u64>() of the length and a ptr() for the name)")
    second = m2.group(1)
    ok9 = joined.index(mlen.group(0)) < joined.index(mptr.group(0)) and mlen.group(1) == sel_len_var and mptr.group(1) == sel_var and (not ok5 or second == bufvar)
    why9 = (f"selector length `{mlen.group(1)}` must be the variable the buckets compare (`{sel_len_var}`), the name pointer `{mptr.group(1)}` taken *after* "
            f"the length was read must be the one `meq` uses (`{sel_var}`), and arguments must be decoded from the second parameter (`{second}`)")
    rep.ob("G9-entry-reads-length-then-name", "entry", ok9, GEN, entry_t[0], why9)
    # names blob interpolated into the entry
    mb = re.search(r"let (\w+) = \" " + PH.pattern + r" \" ;", joined) or re.search(r'let (\w+) = "' + PH.pattern + '"', et)
    mbp = re.search(r"let (\w+) = (\w+) \. as_ptr \( \)", joined)
    rep.ob("G9-names-blob-is-the-offset-base", "entry", bool(mb) and bool(mbp) and mb.group(2) == names_var and mbp.group(2) == mb.group(1) and blob_base[1] == mbp.group(1), GEN, entry_t[0],
           f"the blob the offsets index (`{names_var}`) must be the string literal whose pointer `meq` adds the offset to (`{blob_base[1]}`)")


def named_args_agree(rep, rule, key, call, params, file, aliases=None, skip=()):
    """positional-argument swap check: where an argument is a plain identifier (or alias) that names one of the callee's
    parameters, it must sit at that parameter's position"""
    aliases = aliases or {}
    ok = True
    why = []
    for i, a in enumerate(call["args"]):
        s = tab.show(a).lstrip("&").replace("mut ", "")
        s = aliases.get(s, s)
        if i < len(params) and s in params and params[i] != s and i not in skip:
            ok = False
            why.append(f"argument {i} is `{s}` but parameter {i} is `{params[i]}`")
    rep.ob(rule, key, ok and len(call["args"]) == len(params), file, call["l"], "; ".join(why) or f"{len(call['args'])} arguments for {len(params)} parameters")


def fn_params(fnode):
    return [tab.show(p.get("pat") or p) if isinstance(p, dict) else str(p) for p in fnode.get("params", fnode.get("inputs", []))]


def rule_caller(rep):
    t = tab.tree(MAPP)
    # K1: selector literal = u64 big-endian length, then the bytes, of the resolved method's name
    mnl = [x for x in tab.walk(t) if x.get("k") == "Fn" and x.get("name") == "method_name_literal"]
    f = only(mnl, "fn method_name_literal")
    ls = {names[0]: tab.show(init) for _, names, _, init in tab.lets(f["body"]) if names and init is not None}
    exts = [n for n in tab.walk(f["body"]) if n.get("k") == "MethodCall" and n["method"] in ("extend", "extend_from_slice", "push", "append")]
    if len(exts) != 2:
        raise AnalysisError("C11 K1: method_name_literal builds the selector in a way this rule does not understand (expected two appends)")
    ok = True
    if ok:
        first, second = tab.show(exts[0]["args"][0]).lstrip("&"), tab.show(exts[1]["args"][0]).lstrip("&")
        first = ls.get(first, first)
        mlen = re.fullmatch(r"\(?\(?(\w+)\.len\(\) as u64\)\)?\.to_be_bytes\(\)", first)
        mby = re.fullmatch(r"(\w+)\.as_bytes\(\)", second)
        ok = bool(mlen) and bool(mby) and mlen.group(1) == mby.group(1) and re.fullmatch(r"\w+\.(as_str|as_raw_ident_str)\(\)", ls.get(mby.group(1), "")) is not None
        why = f"selector pieces are `{first}` then `{second}`: must be (name.len() as u64).to_be_bytes() followed by name.as_bytes() of the same name"
    rep.ob("K1-selector-is-length-then-name", "method_name_literal", ok, MAPP, f["l"], why)
    # the literal is built from the resolved method's own name
    uses = [n for n in tab.walk(t) if n.get("k") == "Call" and tab.show(n["func"]) == "method_name_literal"]
    rep.ob("K1-selector-names-the-resolved-method", "call site", len(uses) == 1 and tab.show(uses[0]["args"][0]) == "&method.name", MAPP, uses[0]["l"] if uses else 0,
           "the selector must be built from `method.name`, the method the call resolved to")
    # K2: desugared call: argument vector order == std contract_call parameter order
    ccc = only([x for x in tab.walk(t) if x.get("k") == "Fn" and x.get("name") == "call_contract_call"], "fn call_contract_call")
    ctoks = sw.load(CODEC)
    fs = sw.fns(ctoks, 0, len(ctoks) - 1)
    if "contract_call" not in fs:
        raise AnalysisError("codec.sw: fn contract_call not found")
    bs, be, _ = fs["contract_call"]
    j = bs
    while j > 0 and not (ctoks[j][1] == "fn" and ctoks[j + 1][1] == "contract_call"):
        j -= 1
    hdr = sw.texts(ctoks, j, bs)
    po = hdr.index("(")
    pc = sw.match_brace([(None, x, 0) for x in hdr], po, "(", ")")
    std_params = [hdr[i - 1] for i in range(po, pc) if hdr[i] == ":" and hdr[i - 1] not in ("T", "TArgs")]
    rep.ob("K2-std-contract_call-signature", "codec.sw", std_params == ["contract_id", "method_name", "args", "coins", "asset_id", "gas"], CODEC, ctoks[j][2],
           f"std contract_call parameters are {std_params}")
    vecs = [n for n in tab.walk(ccc["body"]) if n.get("k") == "Macro" and n.get("name") == "vec" and len(n.get("args", [])) == 6]
    v = only(vecs, "six-element argument vector in call_contract_call")
    shown = [tab.show(a) for a in v["args"]]
    alias = {"method_name_expr": "method_name", "as_tuple(arguments)": "args", "coins_expr": "coins", "asset_id_expr": "asset_id", "gas_expr": "gas"}
    got = [alias.get(s, "contract_id" if "B256" in s else s) for s in shown]
    rep.ob("K2-desugared-arguments-in-std-order", "call_contract_call", got == std_params, MAPP, v["l"], f"desugared call passes {got}; std contract_call expects {std_params}")
    callee = [n for n in tab.walk(ccc["body"]) if n.get("k") == "Lit" and n.get("t") == "str" and n.get("v") == "contract_call"]
    rep.ob("K2-desugared-call-targets-std-contract_call", "call_contract_call", len(callee) == 1, MAPP, ccc["l"], "the desugared call must name `contract_call`")
    # type arguments: (return type, tuple of argument types) = std <T, TArgs>
    tys = [tab.show(fl["expr"]) for n in tab.walk(ccc["body"]) if n.get("k") == "Struct" and n["path"].endswith("GenericTypeArgument") for fl in n["fields"] if fl["name"] == "type_id"]
    rep.ob("K2-type-arguments-return-then-args", "call_contract_call", tys == ["return_type", "tuple_args_type_id"], MAPP, ccc["l"], f"type arguments are {tys}; std contract_call is <T (return), TArgs>")
    # the call site passes each expression at the parameter of the same role
    sites = [n for n in tab.walk(t) if n.get("k") == "Call" and tab.show(n["func"]) == "call_contract_call"]
    s_ = only(sites, "call of call_contract_call")
    pn = [tab.show(p["pat"]).replace("mut ", "") for p in ccc["sig"]["inputs"] if "pat" in p]
    named_args_agree(rep, "K2-call-site-roles", "call_contract_call(..)", s_, pn, MAPP)
    a = [tab.show(x) for x in s_["args"]]
    exp = dict(zip(pn, a))
    rep.ob("K2-call-site-roles", "selector / arguments / types", exp.get("method_name_expr", "").startswith("method_name_literal(") and exp.get("arguments") == "args" and
           re.fullmatch(r"arguments\.iter\(\)\.map\(\|(\w+)\|\1\.1\.return_type\)\.collect\(\)", exp.get("typed_arguments", "")) is not None and exp.get("return_type") == "method.return_type.type_id",
           MAPP, s_["l"], f"call site passes {exp}")
    # args = old_arguments minus the contract caller, in order
    fbody = None
    for fn_ in tab.walk(t):
        if fn_.get("k") == "Fn" and s_ in list(tab.walk(fn_.get("body") or {})) and fn_.get("name") != "call_contract_call":
            fbody = fn_
    argsdef = [tab.show(init) for l, names, _, init in tab.lets(fbody["body"]) if names == ["args"] and l < s_["l"] and init is not None]
    rep.ob("K3-arguments-are-all-but-the-caller-in-order", "args", bool(argsdef) and argsdef[-1] == "old_arguments.iter().skip(1).cloned().collect()", MAPP, s_["l"],
           f"the encoded arguments must be every call argument after the contract caller, in order; found {argsdef[-1:]}")
    # call parameters gas/coins/asset_id taken from the parameter of the same name
    for var, const in (("gas_expr", "CONTRACT_CALL_GAS_PARAMETER_NAME"), ("coins_expr", "CONTRACT_CALL_COINS_PARAMETER_NAME"), ("asset_id_expr", "CONTRACT_CALL_ASSET_ID_PARAMETER_NAME")):
        d = [tab.show(init) for l, names, _, init in tab.lets(fbody["body"]) if names == [var] and init is not None]
        rep.ob("K3-call-parameter-by-name", var, bool(d) and const in d[-1] and not any(c in d[-1] for c in ("GAS", "COINS", "ASSET_ID") if c not in const), MAPP, s_["l"],
               f"`{var}` must be read from the `{const}` call parameter")
    # the contract id placeholder is replaced by the real address
    fix = [n for n in tab.walk(fbody["body"]) if n.get("k") == "Assign" and tab.show(n["left"]) == "arguments[0].1"]
    rep.ob("K3-contract-address-patched-in", "arguments[0]", len(fix) == 1 and "contract_address" in tab.show(fix[0]["right"]), MAPP, fix[0]["l"] if fix else s_["l"],
           "the zero contract id of the desugared call must be replaced by the callee's address")
    # ---- K4: std contract_call body -----------------------------------------------------------------------------------------------
    body = " ".join(sw.texts(ctoks, bs, be))
    btoks = sw.texts(ctoks, bs, be)
    m = re.search(r"let (\w+) = encode \( args \) ;", body)
    # `let <params> = ( e0 , e1 , e2 ) ;` -- split the tuple at top-level commas
    tup = None
    for i_, x in enumerate(btoks):
        if x == "let" and i_ + 3 < len(btoks) and btoks[i_ + 2] == "=" and btoks[i_ + 3] == "(":
            close_ = sw.match_brace([(None, y, 0) for y in btoks], i_ + 3, "(", ")")
            elems, cur, depth = [], [], 0
            for y in btoks[i_ + 4:close_]:
                if y in "({[":
                    depth += 1
                elif y in ")}]":
                    depth -= 1
                if y == "," and depth == 0:
                    elems.append(cur)
                    cur = []
                else:
                    cur.append(y)
            if cur:
                elems.append(cur)
            if len(elems) == 3:
                tup = (btoks[i_ + 1], elems)
    mc = re.search(r"__contract_call \( & (\w+) , (\w+) , (\w+) , (\w+) \)", body)
    if not (m and tup and mc):
        raise AnalysisError("C11 K4: std contract_call has a shape this rule does not understand (expected `encode(args)`, a 3-tuple of call parameters and a __contract_call)")
    def root(el):
        names_ = [y for y in el if re.fullmatch(r"[A-Za-z_]\w*", y) and y not in ("asm", "u64", "ptr", "a", "raw_ptr")]
        return names_[0] if names_ else "?"
    roots = [root(el) for el in tup[1]]
    rep.ob("K4-call-frame-tuple", "contract_call", roots == ["contract_id", "method_name", m.group(1)] and all(".ptr" in "".join(el).replace(" ", "") or i_ == 0 for i_, el in enumerate(tup[1])), CODEC, ctoks[bs][2],
           f"call parameters must be (contract_id, pointer to the selector, pointer to encode(args)) in this order; found roots {roots}")
    rep.ob("K4-intrinsic-operands", "contract_call", [mc.group(i) for i in (1, 2, 3, 4)] == [tup[0], "coins", "asset_id", "gas"], CODEC, ctoks[bs][2],
           f"`__contract_call(&params, coins, asset_id, gas)` operands; found {[mc.group(i) for i in (1, 2, 3, 4)]}")
    mr = re.search(r"decode_from_raw_ptr :: < T > \( (\w+) \)", body)
    mret = re.search(r"let (\w+) = asm \( \) \{ ret : raw_ptr \}", body)
    rep.ob("K4-result-decoded-from-ret", "contract_call", bool(mr) and bool(mret) and mr.group(1) == mret.group(1) and body.index(mc.group(0)) < body.index(mret.group(0)), CODEC, ctoks[bs][2],
           "the result must be decoded from $ret read after the call")
    # parameter slots of the call frame
    for nm, off in (("from_first_parameter", "73"), ("from_second_parameter", "74")):
        xs = [(a_, b_) for k_, (a_, b_, _) in fs.items() if k_ == nm]
        if not xs:
            # method inside an impl: search impl fns
            for (s0, e0, *_r) in [(i[1], i[2]) if isinstance(i, tuple) and len(i) >= 3 else (0, 0) for i in []]:
                pass
        txt = " ".join(sw.texts(ctoks, 0, len(ctoks) - 1))
        mm = re.search(r"fn %s \( \) -> raw_ptr \{ const (\w+) : u64 = (\d+) ; let ptr = asm \( \) \{ fp : raw_ptr \} ; let ptr = ptr \. add :: < u64 > \( \1 \) ; let ptr = ptr \. read :: < u64 > \( \)" % nm, txt)
        rep.ob("K4-call-frame-slot", nm, bool(mm) and mm.group(2) == off, CODEC, 0, f"{nm} must read word {off} of the call frame ($fp + {off}*8: the VM stores call parameter {'a' if off == '73' else 'b'} there)")
    # ---- K5: intrinsic -> IR -> CALL ------------------------------------------------------------------------------------------------
    ti = tab.tree(IRGEN)
    arms = [a_ for m_ in tab.matches_in(ti) for a_ in m_["arms"] if any(v == "Intrinsic::ContractCall" for v, _ in tab.pat_variants(a_["pat"]))]
    arm = only([a_ for a_ in arms if any(n.get("k") == "MethodCall" and n["method"] == "contract_call" for n in tab.walk(a_["body"]))], "Intrinsic::ContractCall lowering arm")
    idx = {}
    for l, names, _, init in tab.lets(arm["body"]):
        if init is None or not names:
            continue
        mi = re.search(r"&arguments\[(\d)\]", tab.show(init))
        if mi and names[0] not in idx:
            idx[names[0]] = int(mi.group(1))
    call = only([n for n in tab.walk(arm["body"]) if n.get("k") == "MethodCall" and n["method"] == "contract_call"], "IR contract_call construction")
    got = [tab.show(x) for x in call["args"]]
    rep.ob("K5-intrinsic-argument-positions", "Intrinsic::ContractCall", [idx.get(k_) for k_ in ("params", "coins", "asset_id", "gas")] == [0, 1, 2, 3], IRGEN, arm["l"],
           f"__contract_call(params, coins, asset_id, gas): lowering reads {idx}")
    rep.ob("K5-ir-instruction-operands", "Intrinsic::ContractCall", got[2:] == ["params", "coins", "asset_id", "gas"], IRGEN, call["l"], f"IR contract_call built with {got}")
    ta = tab.tree(ASMB)
    f = tab.fn(ta, "compile_contract_call")
    regs = {}
    for l, names, _, init in tab.lets(f["body"]):
        if init is not None and names:
            mi = re.fullmatch(r"self\.value_to_register\((\w+)\)\??", tab.show(init))
            if mi:
                regs[names[0]] = mi.group(1)
    calls = [n for n in tab.walk(f["body"]) if n.get("k") == "Call" and tab.show(n["func"]).endswith("VirtualOp::CALL")]
    c = only(calls, "VirtualOp::CALL construction")
    ops = [regs.get(tab.show(x).replace(".clone()", ""), tab.show(x)) for x in c["args"]]
    rep.ob("K5-call-opcode-operands", "compile_contract_call", ops == ["params", "coins", "asset_id", "gas"], ASMB, c["l"], f"CALL built from {ops}; the VM expects (params, coins, asset id, gas)")


def run(rep):
    rep.explanation = (
        "Decides the protocol agreement a contract call needs to reach the named method with its arguments: the caller-side desugaring, std "
        "contract_call and the generated __entry dispatcher agree on the selector layout (u64 length, then name bytes), on which name an arm "
        "compares, under which length it is filed and which function it calls, on argument tuple order, on every arm returning, on the fallback, "
        "and on operand positions down to the CALL opcode. The dispatcher is generated text: its templates are rendered with captures kept "
        "symbolic and each capture's provenance is checked in the generator. Does not decide the encoding of argument values (C09/C10).")
    rep.trusted = ["syn", "the Sway tokenizer of rules/lib/sw.py", "FuelVM call-frame layout (parameters a, b at words 73, 74) and meq semantics"]
    rule_generator(rep)
    rule_caller(rep)
