"""C19 Formatting preserves program meaning and comments — structural clauses.

R1 field coverage: for every sway-ast node with `impl Format`, every content-bearing field of every (non-error) variant is
   read somewhere in reach(<T as Format>::format) — an unread field's tokens cannot appear in the output
R2 pipeline: format_module sets up the comment map, formats the module, writes the post-module comments and re-inserts
   newlines, in this order, each with its error propagated
R3 comment lookup completeness: CommentMap::comments_between visits every entry contained in the range (full iteration,
   or a BTreeMap::range whose lower bound is inclusive / unbounded)
R4 every Format impl that weaves comments back (rewrite_with_comments) passes its own leaf_spans() and its own span()
Advisory: LeafSpans impls that skip fields (comments there are re-attached to a neighbouring token instead of being lost).
"""
import re
from lib import mir, panics
from lib.common import AnalysisError

LEVEL = "other"
CRATES = ["swayfmt", "sway_ast", "sway_types"]
# reviewed non-content fields: (type tail, variant, field) -> reason
EXEMPT_FIELDS = {
    ("ItemTraitItem", "Fn", "1"): "optional `;` after a trait item: the formatter always writes it (cosmetic, like trailing commas)",
    ("ItemTraitItem", "Const", "1"): "optional `;` after a trait item: the formatter always writes it",
    ("ItemTraitItem", "Type", "1"): "optional `;` after a trait item: the formatter always writes it",
    ("PathExpr", "PathExpr", "incomplete_suffix"): "error-recovery flag set by the parser for `a::` (LSP), carries no token",
}


def base_ty(s):
    m = re.match(r"[&\s]*(?:mut\s+)?([A-Za-z_][\w:]*)", s or "")
    return m.group(1) if m else s


def exempt_ty(ty):
    return bool(re.match(r"^sway_ast::keywords::\w+Token$", ty) or re.match(r"^sway_ast::expr::op_code::\w+Opcode$", ty)
                or ty.startswith("core::marker::PhantomData") or ty in ("sway_types::span::Span", "sway_error::handler::ErrorEmitted")
                or ty.startswith("alloc::boxed::Box<[sway_types::span::Span]>"))


def run(rep):
    F = mir.Facts(CRATES)
    rep.explanation = (
        "Decides: every content-bearing field of every formatted syntax-tree node is consumed by its formatter (a field that is "
        "never read cannot reach the output, for every input that has it); the module pipeline formats, writes trailing comments "
        "and restores newlines in order with errors propagated; the comment lookup visits every comment in a range; comment "
        "weaving is given the node's own leaf spans. Token-equality of what is emitted per field is not decided.")
    rep.trusted = ["rustc MIR + resolution", "keyword/punctuation token types and opcode token types carry fixed text", "4 reviewed non-content fields"]

    def stop(cf):
        # spans and leaf spans locate a node (for comment weaving); reading a field there does not put it into the output
        return (cf.get("impl_of", "") or "").endswith(("Spanned::span", "LeafSpans::leaf_spans"))
    impls = [f for f in F.fns.values() if (f.get("impl_of", "") or "").endswith("swayfmt::formatter::Format::format") and f.crate == "swayfmt"]
    n_nodes = 0
    for f in sorted(impls, key=lambda x: x.name):
        T = base_ty(f.d.get("self_ty", ""))
        adt = F.adts.get(T)
        if not adt or not T.startswith("sway_ast::"):
            continue
        n_nodes += 1
        cone = F.cone([f], crates=CRATES, over_approx_traits=False, stop=stop)
        read = set()
        for fid in cone:
            g = F.fns.get(fid)
            if g:
                read |= {(a, v, fl) for a, v, fl in mir.fields_read(g) if a == T}
        tail = T.split("::")[-1]
        for v in adt["variants"]:
            if v["name"] == "Error":
                continue
            for fld in v["fields"]:
                if exempt_ty(fld["ty"]) or (tail, v["name"], fld["name"]) in EXEMPT_FIELDS:
                    continue
                ok = (T, v["name"], fld["name"]) in read
                rep.ob("R1-format-reads-field", f"{tail}::{v['name']}.{fld['name']}", ok, f.file, f.lo,
                       f"<{tail} as Format>::format never reads `{fld['name']}: {fld['ty'][:80]}` of variant {v['name']}: whatever the source has "
                       "there (tokens, nested items, comments inside it) is absent from the formatted text")
    rep.floor("R1-format-reads-field", 550)
    rep.analysed = dict(format_impls=len(impls), ast_nodes_checked=n_nodes)

    # ---- R2 pipeline ----------------------------------------------------------------------------------------------
    fm = F.fn("swayfmt::formatter::Formatter::format_module")
    steps = [("with_comments_context", r"Formatter::with_comments_context$"), ("format", r"Format::format$|Format>::format$"),
             ("write_comments", r"comments::write_comments$"), ("handle_newlines", r"newline::handle_newlines$")]
    blocks = []
    for nm, rx in steps:
        cs = [(bi, t) for bi, t in fm.calls() if re.search(rx, t.get("rn") or t.get("fp", "")) or re.search(rx, t.get("fp", ""))]
        rep.ob("R2-pipeline-step-present", nm, len(cs) == 1, fm.file, cs[0][1]["ln"] if cs else fm.lo, f"format_module must call {nm} exactly once (found {len(cs)})")
        if len(cs) == 1:
            blocks.append((nm, cs[0][0], cs[0][1]))
    for (a, ba, ta), (b, bb_, tb) in zip(blocks, blocks[1:]):
        rep.ob("R2-pipeline-order", f"{a}->{b}", fm.dominates(ba, bb_) and ba != bb_, fm.file, tb["ln"],
               f"{b} must run after {a} on every path")
    for nm, bi, t in blocks:
        ok = _propagated(fm, t)
        rep.ob("R2-pipeline-error-propagated", nm, ok, fm.file, t["ln"], f"the Result of {nm} is not propagated with `?`")
    # the post-module comment range starts at the end of the module and reaches the end of the source
    # ---- R3 comments_between ------------------------------------------------------------------------------------------
    cb = F.fn("swayfmt::utils::map::comments::CommentMap::comments_between")
    cone = F.cone([cb], crates=["swayfmt"], over_approx_traits=False)
    full, rng, contained = [], [], []
    for fid in cone:
        g = F.fns.get(fid)
        if not g:
            continue
        for bi, t in g.calls():
            nm = t.get("fp", "")
            if re.search(r"BTreeMap::<K, V, A>::(iter|values|into_iter)$", nm):
                full.append((g, t))
            if re.search(r"BTreeMap::<K, V, A>::(range|range_mut|split_off|first_key_value|last_key_value)$", nm):
                rng.append((g, t))
            if nm.endswith("ByteSpan::contained_within"):
                contained.append((g, t))
    ok3 = bool(full) and not rng
    detail = ""
    # no adapter that truncates or skips part of the walk
    trunc = []
    for fid in cone:
        g = F.fns.get(fid)
        if not g:
            continue
        for bi, t in g.calls():
            nm = t.get("rn") or t.get("fp", "")
            if re.search(r"Iterator>?::(take|take_while|skip|skip_while|step_by|nth|find|find_map|position|last|max|min|max_by_key|min_by_key|next_back)$|Iterator::(take|take_while|skip|skip_while|step_by|nth)$", nm) or \
                    re.search(r"::(take|take_while|skip|skip_while|step_by)$", t.get("fp", "")):
                trunc.append((g, t))
    if rng:
        # inclusive / unbounded lower bound is acceptable
        g, t = rng[0]
        kinds = []
        for bi, si, s in g.stmts():
            if s["r"]["k"] == "agg" and "ops::range::Bound" in s["r"].get("adt", ""):
                kinds.append(s["r"].get("var"))
        ok3 = bool(kinds) and kinds[0] in ("Included", "Unbounded") and not full
        detail = f"lower bound {kinds[:1]}"
    if trunc:
        ok3 = False
        detail = f"the walk is truncated by `{trunc[0][1].get('fp', '').split('::')[-1]}`"
    rep.ob("R3-comment-lookup-visits-every-contained-entry", cb.name, ok3 and bool(contained), cb.file, trunc[0][1]["ln"] if trunc else cb.lo,
           "comments_between must test every entry with ByteSpan::contained_within: iterate the whole map, or use BTreeMap::range with an inclusive "
           f"(or unbounded) lower bound — a span equal to the queried range is the smallest key it contains ({detail or 'no full iteration found'}); "
           "a skipped comment is silently dropped from the output")

    # ---- R4 rewrite_with_comments arguments ------------------------------------------------------------------------------
    n4 = 0
    for f in F.fns.values():
        if f.crate != "swayfmt" or f.exp:
            continue
        for bi, t in f.calls():
            if not (t.get("fp", "")).endswith("comments::rewrite_with_comments"):
                continue
            n4 += 1
            a = t.get("a", [])
            sp = panics.root_call(f, a[1]) if len(a) > 1 else None
            ls = panics.root_call(f, a[2]) if len(a) > 2 else None
            ok_ls = bool(ls and ls[0] == "call" and (ls[1].get("fp", "")).endswith("LeafSpans::leaf_spans"))
            ok_sp = bool(sp and sp[0] == "call" and re.search(r"Spanned::span$", sp[1].get("fp", "")))
            same = False
            if ok_ls and ok_sp:
                same = panics.root_local(f, ls[1]["a"][0]) == panics.root_local(f, sp[1]["a"][0])
                if not same:
                    # inside a closure `self` is a captured variable: compare the captured names
                    na, nb = panics.origin_var(f, ls[1]["a"][0]), panics.origin_var(f, sp[1]["a"][0])
                    same = na is not None and na == nb
            fam = f.name.split("::{closure")[0]
            rep.ob("R4-comment-weaving-uses-own-spans", fam, ok_ls and ok_sp and same, f.file, t["ln"],
                   "rewrite_with_comments must receive `self.span()` and `self.leaf_spans()` of the node being formatted "
                   f"(span from {sp and sp[0]}, leaf spans from {ls and ls[0]}, same receiver: {same})")
    rep.floor("R4-comment-weaving-uses-own-spans", 10, n4)
    rule_comment_termination(rep)

    # ---- advisory: LeafSpans coverage -------------------------------------------------------------------------------------
    adv = []
    for f in [g for g in F.fns.values() if (g.get("impl_of", "") or "").endswith("LeafSpans::leaf_spans") and g.crate == "swayfmt"]:
        T = base_ty(f.d.get("self_ty", ""))
        adt = F.adts.get(T)
        if not adt or not T.startswith("sway_ast::"):
            continue
        cone = F.cone([f], crates=CRATES, over_approx_traits=False)
        read = set()
        for fid in cone:
            g = F.fns.get(fid)
            if g:
                read |= {(a, v, fl) for a, v, fl in mir.fields_read(g) if a == T}
        for v in adt["variants"]:
            if v["name"] == "Error":
                continue
            for fld in v["fields"]:
                if exempt_ty(fld["ty"]) or fld["ty"] == "bool":
                    continue
                if (T, v["name"], fld["name"]) not in read:
                    adv.append(f"{T.split('::')[-1]}::{v['name']}.{fld['name']}")
    rep.analysed["advisory_leaf_spans_skipping_fields"] = adv


def _propagated(fn, call_t):
    for bi, t in fn.calls():
        nm = t.get("rn") or t.get("fp", "")
        if nm.endswith("Try>::branch") and t["a"][0].get("l") == call_t["d"]["l"]:
            sw = fn.bbs[t["t"]]["t"]
            if sw["k"] == "switch":
                brk = [b for v, b in sw["ts"] if v == "1"]
                if brk:
                    for b in fn.reachable(brk[0]):
                        tt = fn.bbs[b]["t"]
                        if tt["k"] == "call" and (tt.get("rn") or tt.get("fp", "")).endswith("from_residual") and tt.get("d", {}).get("l") == 0:
                            return True
    return False


def rule_comment_termination(rep):
    """R5: a `//` comment extends to the end of its line, so whatever the formatter writes after a comment's text must start on a new
    line. In insert_after_span a comment is written either with `writeln!` or with `write!`; the `write!` form is allowed only under
    a condition that guarantees that the text following it starts with a newline (`indent.starts_with('\\n')`: the separator written
    before the next comment / the code). Otherwise the next comment and the rest of the code line become part of the first comment."""
    from lib import tab
    rel = "swayfmt/src/comments.rs"
    t = tab.tree(rel)
    f = tab.fn(t, "insert_after_span")
    lets = {names[0]: tab.show(i_) for l_, names, _, i_ in tab.lets(f["body"]) if names and i_ is not None}

    def parents_of(root, target):
        stack = [(root, [])]
        while stack:
            n, path = stack.pop()
            if n is target:
                return path
            for v in (n.values() if isinstance(n, dict) else n if isinstance(n, list) else []):
                if isinstance(v, (dict, list)):
                    stack.append((v, path + ([n] if isinstance(n, dict) else [])))
        return []
    # only line comments (`//`) need it: the Trailing and Newlined arms of the match over the comment kind
    line_arms = [a for m_ in tab.matches_in(f["body"]) if "comment_kind" in tab.show(m_.get("expr") or {}) for a in m_["arms"]
                 if re.search(r"CommentKind::(Trailing|Newlined)$", tab.show(a["pat"]))]
    if len(line_arms) != 2:
        raise AnalysisError(f"insert_after_span: expected the Trailing and Newlined arms of the match over comment_kind, found {len(line_arms)}")
    writes = [n for a in line_arms for n in tab.walk(a["body"]) if n.get("k") == "Macro" and n.get("name") in ("write", "writeln") and
              any("span().as_str()" in tab.show(x) for x in n.get("args", []))]
    n5 = 0
    for w in writes:
        if w["name"] == "writeln":
            n5 += 1
            rep.ob("R5-comment-text-ends-its-line", f"insert_after_span|writeln@{n5}", True, rel, w["l"], "")
            continue
        n5 += 1
        fmt = [a for a in w["args"] if a.get("k") == "Lit" and a.get("t") == "str"]
        if fmt and fmt[0]["v"].endswith("\n"):
            rep.ob("R5-comment-text-ends-its-line", f"insert_after_span|write@{n5}", True, rel, w["l"], "")
            continue
        conds = []
        for a in parents_of(f["body"], w):
            if a.get("k") == "If" and any(x is w for x in tab.walk(a["then"])):
                c = tab.show(a["cond"])
                c = lets.get(c, c) if re.fullmatch(r"\w+", c) else c
                conds.append(c)
        ok = any(re.search(r"indent\.starts_with\(.?(\n|\\n)", c) for c in conds)
        rep.ob("R5-comment-text-ends-its-line", f"insert_after_span|write@{n5}", ok, rel, w["l"],
               f"a comment is written without a line end under the condition(s) {conds}: nothing guarantees that what follows starts on a new line, so the next "
               "comment or the rest of the code line is swallowed into this `//` comment (tokens disappear from the program)")
    rep.floor("R5-comment-text-ends-its-line", 4, n5)

