"""C05 IR text round-trips — writer/reader agreement between sway-ir printer.rs and the peg grammar of parser.rs.

Scope: instruction kinds the compiler can produce (constructed through InstructionInserter from sway-core's IR
generation or a sway-ir pass); the rest is reported as advisory notes, never as violations."""
import os, re
from lib import tab, vtable, peg
from lib.common import REPO, AnalysisError

LEVEL = "other"
INSTR = "sway-ir/src/instruction.rs"
PRINTER = "sway-ir/src/printer.rs"
PARSER = "sway-ir/src/parser.rs"
NESTED = {("InstOp", "FuelVm"): "FuelVmInstruction"}


def producible(E):
    """Variants constructed by InstructionInserter methods that are called outside the parser/inliner-clone code."""
    t = tab.tree(INSTR)
    meth2var = {}
    for im in tab.items(t, "Impl"):
        if tab.norm(im["self_ty"]).startswith("InstructionInserter"):
            for f in im["items"]:
                if f.get("k") != "Fn":
                    continue
                vs = set()
                for n in tab.walk(f["body"]):
                    p = n.get("path") if n.get("k") in ("Path", "Struct", "Call") else None
                    if n.get("k") == "Call" and n["func"].get("k") == "Path":
                        p = n["func"]["path"]
                    if p:
                        ev = vtable._variant_of(p, E, None)
                        if ev and ev not in NESTED:
                            vs.add(ev)
                if vs:
                    meth2var[f["name"]] = vs
    used = {}
    roots = ["sway-core/src/ir_generation", "sway-ir/src/optimize"]
    for r in roots:
        for dp, dn, fs in os.walk(os.path.join(REPO, r)):
            for fn_ in fs:
                if not fn_.endswith(".rs"):
                    continue
                rel = os.path.relpath(os.path.join(dp, fn_), REPO)
                if rel.endswith("optimize/inline.rs"):
                    continue
                tt = tab.tree(rel)
                for n in tab.walk(tt):
                    if n.get("k") == "MethodCall" and n["method"] in meth2var:
                        for ev in meth2var[n["method"]]:
                            used.setdefault(ev, (rel, n["l"]))
                    # direct construction `InstOp::X { .. }` in passes
                    p = n.get("path") if n.get("k") in ("Struct",) else (n["func"]["path"] if n.get("k") == "Call" and n["func"].get("k") == "Path" else None)
                    if p:
                        ev = vtable._variant_of(p, E, None)
                        if ev and ev not in NESTED:
                            used.setdefault(ev, (rel, n["l"]))
    return used, meth2var


def keyword_table(node, enum_name):
    """`match x { Enum::A => "a", ... }` tables inside a node: {Variant: literal} (first one found per variant)."""
    out = {}
    for m in tab.matches_in(node):
        for a in m["arms"]:
            b = a["body"]
            if b.get("k") == "Lit" and b.get("t") == "str":
                for v, p in tab.pat_variants(a["pat"]):
                    segs = v.split("::")
                    if len(segs) >= 2 and segs[-2] == enum_name:
                        out.setdefault(segs[-1], set()).add(b["v"])
    return out


def run(rep):
    t = tab.tree(INSTR)
    E = {"InstOp": vtable.enum_variants(t, "InstOp"), "FuelVmInstruction": vtable.enum_variants(t, "FuelVmInstruction")}
    prod, meth2var = producible(E)
    variants = [(e, v) for e in E for v in E[e] if (e, v) not in NESTED]
    rep.explanation = (
        "Decides writer/reader agreement for the IR text format: the printer's keyword tables are the inverse of the "
        "grammar's, every field of every compiler-producible instruction is printed unconditionally, its mnemonic leads an "
        "un-shadowed alternative of the grammar's operation() rule, and every capture of a grammar rule reaches the AST "
        "node it builds. Does not decide identical re-print or behaviour after reparse.")
    rep.analysed = dict(variants=len(variants), producible=len(prod), files=[PRINTER, PARSER, INSTR])
    rep.trusted = ["syn", "rust-peg ordered-choice semantics"]
    rep.floor("R0-producible-variants", 38, len(prod))

    tp = tab.tree(PRINTER)
    fprint = tab.fn(tp, "instruction_to_doc")
    rows, wild = vtable.build(fprint, E, nested=NESTED)
    R = peg.grammar_rules(tab.tree(PARSER))
    opr = R.get("operation")
    if not opr:
        raise AnalysisError("grammar rule operation() not found")
    op_alts = [peg.calls(a)[0] for a in opr.alts if peg.calls(a)]

    # ---- R1 keyword tables are inverse --------------------------------------------------------------
    tables = [("BinaryOpKind", "binary_op_kind"), ("UnaryOpKind", "unary_op_kind"), ("Predicate", "cmp_pred")]
    for enum_name, rule_name in tables:
        pk = keyword_table(fprint["body"], enum_name)
        gr = R.get(rule_name)
        gk = {}
        for a in gr.alts:
            lits = peg.first_literals(R, a)
            for path in peg.action_paths(a):
                if path.startswith(enum_name + "::"):
                    gk.setdefault(path.split("::")[1], set()).update(lits)
        ev = vtable.enum_variants(t, enum_name)
        for v in ev:
            ok = v in pk and v in gk and len(pk[v]) == 1 and pk[v] == gk[v]
            rep.ob("R1-keyword-inverse", f"{enum_name}::{v}", ok, PRINTER, fprint["l"],
                   f"printer writes {sorted(pk.get(v, []))} for {enum_name}::{v}; grammar rule {rule_name}() reads {sorted(gk.get(v, []))}")
        # two variants must not share a keyword
        seen = {}
        for v, ks in pk.items():
            for k in ks:
                rep.ob("R1-keyword-unique", f"{enum_name}:{k}", k not in seen, PRINTER, fprint["l"],
                       f"keyword `{k}` printed for both {enum_name}::{seen.get(k)} and {enum_name}::{v}")
                seen[k] = v
    rep.floor("R1-keyword-inverse", 14)

    # ---- R2 printer uses every field, unconditionally ------------------------------------------------------
    for ev in variants:
        e, v = ev
        rs = rows.get(ev, [])
        if ev not in prod:
            if not rs:
                rep.note(f"advisory: {e}::{v} (not compiler-producible) has no printer arm")
            continue
        if not rep.ob("R2-printer-arm", f"{e}::{v}", bool(rs), PRINTER, fprint["l"], f"no printer arm for producible {e}::{v}"):
            continue
        r = rs[0]
        fb = r.field_binders(E[e][v]["fields"])
        used = tab.idents_used(r.body())
        for fld in E[e][v]["fields"]:
            bs = fb.get(fld["name"], ([], None))[0]
            ok = any(b in used for b in bs)
            rep.ob("R2-printer-prints-field", f"{e}::{v}.{fld['name']}", ok, PRINTER, r.line,
                   f"field `{fld['name']}` of {e}::{v} is not printed: it cannot be parsed back")
            if not ok:
                continue
            # conditional printing: a branch on the field may only test Some/None of the field itself
            for n in tab.walk(r.body()):
                bad = None
                if n.get("k") == "Match" and _mentions(n["expr"], bs):
                    for a in n["arms"]:
                        if a.get("guard"):
                            bad = f"match arm guard at line {a['l']}"
                        for pv, pp in tab.pat_variants(a["pat"]):
                            if tab.last_seg(pv) not in ("Some", "None", "_") and not _is_kw_table(a):
                                bad = bad
                elif n.get("k") == "If" and _mentions(n["cond"], bs) and n["cond"].get("k") != "LetCond":
                    # allowed: emptiness tests of collections that change layout only
                    if not _only_layout_test(n["cond"]):
                        bad = f"`if` on the field at line {n['l']}"
                elif n.get("k") == "If" and n["cond"].get("k") == "LetCond" and _mentions(n["cond"]["expr"], bs):
                    pvs = [tab.last_seg(x) for x, _ in tab.pat_variants(n["cond"]["pat"])]
                    if any(x not in ("Some", "None") for x in pvs):
                        bad = f"`if let` with a refutable non-Option pattern at line {n['l']}"
                if bad and fld["ty"].replace(" ", "").startswith("Option<"):
                    rep.ob("R2-printer-unconditional", f"{e}::{v}.{fld['name']}", False, PRINTER, n["l"],
                           f"printing of optional field `{fld['name']}` of {e}::{v} depends on more than its presence ({bad}): "
                           "values for which the condition is false are dropped from the text and come back as None")
                    break
            else:
                if fld["ty"].replace(" ", "").startswith("Option<"):
                    rep.ob("R2-printer-unconditional", f"{e}::{v}.{fld['name']}", True, PRINTER, r.line, "")
    rep.floor("R2-printer-prints-field", 70)

    # ---- R3 mnemonic leads an un-shadowed alternative of operation() ----------------------------------------
    alt_first = []
    for a in opr.alts:
        alt_first.append((peg.calls(a)[0] if peg.calls(a) else "?", peg.first_literals(R, a)))
    for ev in variants:
        e, v = ev
        rs = rows.get(ev, [])
        if not rs:
            continue
        mn = _mnemonic(rs[0].body())
        if mn is None:
            continue
        idx = [i for i, (nm, fl) in enumerate(alt_first) if mn in fl]
        if ev not in prod:
            if not idx:
                rep.note(f"advisory: `{mn}` ({e}::{v}, not compiler-producible) is printed but no alternative of operation() starts with it")
            continue
        if not rep.ob("R3-mnemonic-parsed", f"{e}::{v}:{mn}", bool(idx), PARSER, opr.line,
                      f"the printer writes `{mn}` for {e}::{v} but no alternative of operation() starts with that keyword"):
            continue
        i = idx[0]
        shadow = [(nm, l) for nm, fl in alt_first[:i] for l in fl if mn != l and mn.startswith(l) and l]
        rep.ob("R3-mnemonic-not-shadowed", f"{e}::{v}:{mn}", not shadow, PARSER, opr.line,
               f"`{mn}` is shadowed in operation(): earlier alternative(s) {shadow} match a proper prefix of it and PEG choice is ordered")
    rep.floor("R3-mnemonic-parsed", 30)
    # nested ordered choices of plain literals (register names etc.): a literal must not follow its proper prefix
    for name, rule in R.items():
        for grp in _literal_choices(rule):
            for i, a in enumerate(grp):
                for b in grp[i + 1:]:
                    if b != a and b.startswith(a):
                        key = f"{name}:{a}<{b}"
                        reachable = not (name == "reg_name" and not _reg_producible(b))
                        if reachable:
                            rep.ob("R3-literal-choice-order", key, False, PARSER, rule.line,
                                   f"in rule {name}() the literal \"{a}\" precedes \"{b}\": \"{b}\" can never be parsed")
                        else:
                            rep.note(f"advisory: rule {name}(): \"{a}\" precedes \"{b}\" (register `{b}` is never emitted by IR generation)")
    # every op_* rule is an alternative of operation()
    for name, rule in R.items():
        if name.startswith("op_"):
            built = [p.split("::")[1] for a in rule.alts for p in peg.action_paths(a) if p.startswith("IrAstOperation::")]
            if name not in op_alts:
                rep.note(f"advisory: grammar rule {name}() ({built}) is not an alternative of operation()")

    # ---- R4 every capture of an op_ rule reaches the AST node ---------------------------------------------
    for name in op_alts:
        rule = R.get(name)
        if not rule:
            rep.ob("R4-rule-defined", name, False, PARSER, opr.line, f"operation() refers to undefined rule {name}()")
            continue
        for a in rule.alts:
            labels = [a[i]["i"] for i in range(len(a) - 1) if "i" in a[i] and a[i + 1].get("p") == ":" and not (i + 2 < len(a) and a[i + 2].get("p") == ":")]
            act = [x for x in a if x.get("g") == "{"]
            used = set()
            if act:
                used = {x.get("i") for x in _flat(act[-1]["t"])}
            for lb in labels:
                rep.ob("R4-capture-used", f"{name}:{lb}", lb in used, PARSER, rule.line,
                       f"grammar rule {name}() captures `{lb}` but its action drops it")
    rep.floor("R4-capture-used", 90)
    rule_header_flags(rep, R)


def _flat(toks):
    for t in toks:
        if "g" in t:
            yield from _flat(t["t"])
        else:
            yield t


def _mentions(node, names):
    ids = tab.idents_used(node)
    return any(b in ids for b in names)


def _is_kw_table(arm):
    return arm["body"].get("k") == "Lit"


def _only_layout_test(cond):
    ms = {n["method"] for n in tab.walk(cond) if n.get("k") == "MethodCall"}
    return bool(ms) and ms <= {"is_empty", "len", "is_some", "is_none"}


def _mnemonic(body):
    """Leading keyword of the instruction's text: first word (after `<name> = `) of the first format!/Doc::text literal."""
    cands = []
    for n in tab.walk(body):
        if n.get("k") == "Macro" and n["name"] == "format" and n.get("args") and n["args"][0].get("k") == "Lit":
            cands.append((n["l"], n["args"][0]["v"]))
        if n.get("k") == "Call" and n["func"].get("k") == "Path" and n["func"]["path"] == "Doc::text" and n["args"] \
                and n["args"][0].get("k") == "Lit" and n["args"][0].get("t") == "str":
            cands.append((n["l"], n["args"][0]["v"]))
    for _, s in sorted(cands):
        m = re.match(r"^(?:\{[^}]*\} = )?([a-z_][a-z0-9_]*)\b", s)
        if m:
            return m.group(1)
        if re.match(r"^(?:\{[^}]*\} = )?\{", s):
            return None  # mnemonic comes from a keyword table (checked by R1)
    return None


def _literal_choices(rule):
    """Ordered groups of plain string literals `("a" / "b" / ...)` anywhere inside a rule."""
    out = []
    def rec(toks):
        alts, cur = [], []
        for t in toks:
            if t.get("p") == "/":
                alts.append(cur); cur = []
            else:
                cur.append(t)
        alts.append(cur)
        if len(alts) > 1 and all(len(a) == 1 and "lit" in a[0] and a[0]["lit"].startswith('"') for a in alts):
            out.append([a[0]["lit"][1:-1] for a in alts])
        for t in toks:
            if "g" in t and t["g"] in ("(",):
                rec(t["t"])
    for a in rule.alts:
        rec(a)
    return out


_REGS = None


def _reg_producible(lit):
    global _REGS
    if _REGS is None:
        _REGS = set()
        tp = tab.tree(PRINTER)
        f = tab.fn(tp, "instruction_to_doc")
        kw = keyword_table(f["body"], "Register")
        used = set()
        for dp, dn, fs in os.walk(os.path.join(REPO, "sway-core/src/ir_generation")):
            for fn_ in fs:
                if fn_.endswith(".rs"):
                    tt = tab.tree(os.path.relpath(os.path.join(dp, fn_), REPO))
                    for n in tab.walk(tt):
                        if n.get("k") == "Path" and "Register::" in n["path"]:
                            used.add(tab.last_seg(n["path"]))
        for v, ks in kw.items():
            if v in used:
                _REGS |= ks
    return lit in _REGS


def rule_header_flags(rep, rules):
    """R5: the function header is printed as a sequence of independently optional keywords (`pub `, `entry `, `entry_orig `,
    `fallback `: each one is `if <flag> { "kw " } else { "" }`), so any subset can appear. The grammar must accept any subset: each
    keyword needs its own optional element in rule fn_decl before the literal `fn`. Two keywords sharing one element are mutually
    exclusive for the parser, and a function carrying both flags prints a header that does not parse back."""
    PR = "sway-ir/src/printer.rs"
    t = tab.tree(PR)
    headers = [n for n in tab.walk(t) if n.get("k") == "Macro" and n.get("name") == "format" and n.get("args") and n["args"][0].get("t") == "str" and
               re.fullmatch(r"(\{\})+fn \{\}", n["args"][0]["v"])]
    if len(headers) != 1:
        raise AnalysisError(f"C05 R5: expected one function-header format string in printer.rs, found {len(headers)}")
    h = headers[0]
    vars_ = [tab.show(a) for a in h["args"][1:-1]]
    fn_node = [f_ for f_ in tab.walk(t) if f_.get("k") == "Fn" and f_.get("body") and any(x is h for x in tab.walk(f_["body"]))][0]
    lets = {names[0]: init for l_, names, _, init in tab.lets(fn_node["body"]) if names and init is not None}
    printed = []
    for v in vars_:
        init = lets.get(v)
        kws = sorted({x["v"].strip() for x in tab.walk(init or {}) if x.get("k") == "Lit" and x.get("t") == "str" and x["v"].strip()})
        empties = [x for x in tab.walk(init or {}) if x.get("k") == "Lit" and x.get("t") == "str" and x["v"] == ""]
        if init is None or init.get("k") != "If" or len(kws) != 1 or not empties:
            raise AnalysisError(f"C05 R5: header piece `{v}` is not of the form if .. {{ \"kw \" }} else {{ \"\" }}")
        printed.append(kws[0])
    # grammar side
    fd = rules.get("fn_decl")
    if fd is None:
        raise AnalysisError("C05 R5: rule fn_decl not found")
    toks = fd.alts[0]
    stop = next((i for i, x in enumerate(toks) if x.get("lit") == '"fn"'), None)
    if stop is None:
        raise AnalysisError("C05 R5: literal \"fn\" not found in rule fn_decl")
    prefix = toks[:stop]
    elems = []  # (rule name, set of first literals, optional?)
    i = 0
    while i < len(prefix):
        x = prefix[i]
        if "i" in x and i + 1 < len(prefix) and prefix[i + 1].get("g") == "(" and x["i"] not in ("_", "__"):
            name = x["i"]
            opt = i + 2 < len(prefix) and peg._is_p(prefix[i + 2], "?")
            lits = set()
            nullable = opt
            for a in rules[name].alts if name in rules else []:
                fl = peg.first_literals(rules, a)
                lits |= {l for l in fl if l}
                if "" in fl or not fl:
                    nullable = True
            elems.append((name, lits, nullable))
            i += 2
            continue
        i += 1
    for kw in printed:
        owners = [e for e in elems if kw in e[1]]
        shared = [k2 for k2 in printed if k2 != kw and owners and k2 in owners[0][1]]
        ok = len(owners) == 1 and owners[0][2] and not shared
        rep.ob("R5-header-keywords-independently-optional", kw, ok, "sway-ir/src/parser.rs", fd.line,
               f"the printer emits `{kw}` independently of the other header keywords, but in rule fn_decl it is " +
               ("not accepted by exactly one optional element" if len(owners) != 1 or not owners[0][2] else
                f"parsed by the same element (`{owners[0][0]}`) as {shared}: the two keywords exclude each other, so a function with both flags prints a header that does not parse"))
    rep.floor("R5-header-keywords-independently-optional", 4)

