"""C07 Assembly-level optimizations preserve behaviour — structural clauses.

R1 SPEC: every line of the transform_operator! table in constant_propagate.rs (opcode/immediate pairing, both_known
evaluator, commutativity, algebraic identities) is allowed by spec/asm_identities.txt.
R2 ISA tables (def/use/side-effect) shared with C08 (rules in lib/isa.py)."""
import os, re
from lib import tab
from lib.common import VERIF, AnalysisError

LEVEL = "other"
CP = "sway-core/src/asm_generation/fuel/optimizations/constant_propagate.rs"


def load_spec():
    spec = {}
    for ln in open(os.path.join(VERIF, "spec/asm_identities.txt")):
        ln = ln.strip()
        if not ln or ln.startswith("#"):
            continue
        p = ln.split()
        ev, _, opr = p[2].partition("|")
        spec[p[0]] = dict(imm=p[1], evaluator=ev, operator=opr, commutative=p[3] == "yes", identities=set(p[4:]))
    return spec


def tok_str(toks):
    out = []
    for t in toks:
        if "i" in t:
            out.append(t["i"])
        elif "p" in t:
            out.append(t["p"])
        elif "lit" in t:
            out.append(t["lit"])
        else:
            out.append(t["g"] + tok_str(t["t"]) + {"(": ")", "{": "}", "[": "]", "": ""}[t["g"]])
    s = ""
    for x in out:
        s += x if (x in (":", ";", ",") or s.endswith(":")) else (" " + x)
    return s.strip().replace(" :", ":").replace(": :", "::")


def split_semis(toks):
    cur, out = [], []
    for t in toks:
        if t.get("p") == ";":
            out.append(cur)
            cur = []
        else:
            cur.append(t)
    if cur:
        out.append(cur)
    return out


def rule_r1(rep):
    spec = load_spec()
    t = tab.tree(CP)
    f = tab.fn(t, "constant_propagate")
    seen = {}
    for n in tab.walk(f["body"]):
        if n.get("k") == "Macro" and n["name"] == "transform_operator" and "tokens" in n:
            parts = split_semis(n["tokens"])
            head = [x.get("i") for x in parts[0] if "i" in x]
            if len(head) != 2:
                continue
            op, imm = head
            line = n["l"]
            seen[op] = line
            s = spec.get(op)
            if not rep.ob("R1-table-op-known", op, s is not None, CP, line,
                          f"transform_operator! handles opcode {op}, which spec/asm_identities.txt does not classify"):
                continue
            rep.ob("R1-imm-form", op, imm == s["imm"], CP, line,
                   f"{op} is paired with immediate form {imm}; the ISA pairs it with {s['imm']}")
            for part in parts[1:]:
                txt = tok_str(part)
                key = f"{op}: {txt}"
                m = re.match(r"both_known:\s*(.+)$", txt)
                if m:
                    ev = m.group(1).replace(" ", "")
                    rep.ob("R1-evaluator", key, ev == s["evaluator"], CP, line,
                           f"{op} folds two known operands with `{ev}`; the evaluator that agrees with the VM (no value when "
                           f"the VM would revert or wrap) is `{s['evaluator']}`")
                    continue
                m = re.match(r"commutative:\s*(\w+)$", txt)
                if m:
                    rep.ob("R1-commutative", key, (m.group(1) == "true") <= s["commutative"], CP, line,
                           f"{op} is declared commutative (operands swapped into the immediate form) but is not")
                    continue
                m = re.match(r"if (left|right) is (\S+) assign (\S+)$", txt)
                if m:
                    ident = f"{'L' if m.group(1) == 'left' else 'R'}{m.group(2)}={m.group(3)}"
                    rep.ob("R1-identity", key, ident in s["identities"], CP, line,
                           f"`{op}: {txt}` is not valid for every value of the unknown operand (definedness included); "
                           f"allowed identities for {op}: {sorted(s['identities'])}")
                    continue
                rep.ob("R1-table-line-understood", key, False, CP, line, f"unrecognised transform_operator! line `{txt}`")
    rep.floor("R1-table-op-known", 16)
    # helper evaluators apply the operator the spec names
    for op, s in spec.items():
        if s["operator"] and op in seen:
            h = tab.fn(t, s["evaluator"])
            body_ops = {n["method"] for n in tab.walk(h["body"]) if n.get("k") == "MethodCall"} | \
                       {n["op"] for n in tab.walk(h["body"]) if n.get("k") == "Binary"}
            rep.ob("R1-helper-operator", s["evaluator"], s["operator"] in body_ops and len(body_ops) == 1, CP, h["l"],
                   f"helper {s['evaluator']} must compute `{s['operator']}`; its body uses {sorted(body_ops)}")


def run(rep):
    rep.explanation = (
        "Decides (R1) that every rewrite the abstract-instruction constant propagator can perform on an arithmetic opcode "
        "is taken from a table of identities valid for every run-time value of the unknown operand, with the evaluator "
        "that yields no constant exactly when the VM would revert; (R2) that the ISA def/use/side-effect tables asm DCE, "
        "move elimination and the propagator's reset-on-def rely on are complete and consistent. Does not decide the "
        "optimizers' dataflow.")
    rep.trusted = ["syn", "spec/asm_identities.txt, spec/isa.txt (written from fuel-asm / fuel-vm 0.66 sources)"]
    rule_r1(rep)
    try:
        from lib import isa
    except ImportError:
        isa = None
    if isa:
        isa.rules(rep, for_prop="C07")
