"""C07 Assembly-level optimizations preserve behaviour — structural clauses.

R1 SPEC: every line of the transform_operator! table in constant_propagate.rs (opcode/immediate pairing, both_known
evaluator, commutativity, algebraic identities) is allowed by spec/asm_identities.txt.
R2 ISA tables (def/use/side-effect) shared with C08 (rules in lib/isa.py)."""
import os, re
from lib import tab
from lib.common import VERIF, AnalysisError

LEVEL = "other"
CP = "sway-core/src/asm_generation/fuel/optimizations/constant_propagate.rs"


def load_spec():
    spec = {}
    for ln in open(os.path.join(VERIF, "spec/asm_identities.txt")):
        ln = ln.strip()
        if not ln or ln.startswith("#"):
            continue
        p = ln.split()
        ev, _, opr = p[2].partition("|")
        spec[p[0]] = dict(imm=p[1], evaluator=ev, operator=opr, commutative=p[3] == "yes", identities=set(p[4:]))
    return spec


def tok_str(toks):
    out = []
    for t in toks:
        if "i" in t:
            out.append(t["i"])
        elif "p" in t:
            out.append(t["p"])
        elif "lit" in t:
            out.append(t["lit"])
        else:
            out.append(t["g"] + tok_str(t["t"]) + {"(": ")", "{": "}", "[": "]", "": ""}[t["g"]])
    s = ""
    for x in out:
        s += x if (x in (":", ";", ",") or s.endswith(":")) else (" " + x)
    return s.strip().replace(" :", ":").replace(": :", "::")


def split_semis(toks):
    cur, out = [], []
    for t in toks:
        if t.get("p") == ";":
            out.append(cur)
            cur = []
        else:
            cur.append(t)
    if cur:
        out.append(cur)
    return out


def rule_r1(rep):
    spec = load_spec()
    t = tab.tree(CP)
    f = tab.fn(t, "constant_propagate")
    seen = {}
    for n in tab.walk(f["body"]):
        if n.get("k") == "Macro" and n["name"] == "transform_operator" and "tokens" in n:
            parts = split_semis(n["tokens"])
            head = [x.get("i") for x in parts[0] if "i" in x]
            if len(head) != 2:
                continue
            op, imm = head
            line = n["l"]
            seen[op] = line
            s = spec.get(op)
            if not rep.ob("R1-table-op-known", op, s is not None, CP, line,
                          f"transform_operator! handles opcode {op}, which spec/asm_identities.txt does not classify"):
                continue
            rep.ob("R1-imm-form", op, imm == s["imm"], CP, line,
                   f"{op} is paired with immediate form {imm}; the ISA pairs it with {s['imm']}")
            for part in parts[1:]:
                txt = tok_str(part)
                key = f"{op}: {txt}"
                m = re.match(r"both_known:\s*(.+)$", txt)
                if m:
                    ev = m.group(1).replace(" ", "")
                    rep.ob("R1-evaluator", key, ev == s["evaluator"], CP, line,
                           f"{op} folds two known operands with `{ev}`; the evaluator that agrees with the VM (no value when "
                           f"the VM would revert or wrap) is `{s['evaluator']}`")
                    continue
                m = re.match(r"commutative:\s*(\w+)$", txt)
                if m:
                    rep.ob("R1-commutative", key, (m.group(1) == "true") <= s["commutative"], CP, line,
                           f"{op} is declared commutative (operands swapped into the immediate form) but is not")
                    continue
                m = re.match(r"if (left|right) is (\S+) assign (\S+)$", txt)
                if m:
                    ident = f"{'L' if m.group(1) == 'left' else 'R'}{m.group(2)}={m.group(3)}"
                    cex = identity_counterexample(op, m.group(1), m.group(2), m.group(3))
                    rep.ob("R1-identity", key, cex is None, CP, line,
                           f"`{op}: {txt}` is not valid for every value of the unknown operand (definedness included): {cex}")
                    if cex is None and ident not in s["identities"]:
                        rep.note(f"R1-identity: `{key}` is not in spec/asm_identities.txt but agrees with the VM semantics of {op} on the witness set")
                    continue
                rep.ob("R1-table-line-understood", key, False, CP, line, f"unrecognised transform_operator! line `{txt}`")
    rep.floor("R1-table-op-known", 16)
    # helper evaluators apply the operator the spec names
    for op, s in spec.items():
        if s["operator"] and op in seen:
            h = tab.fn(t, s["evaluator"])
            body_ops = {n["method"] for n in tab.walk(h["body"]) if n.get("k") == "MethodCall"} | \
                       {n["op"] for n in tab.walk(h["body"]) if n.get("k") == "Binary"}
            rep.ob("R1-helper-operator", s["evaluator"], s["operator"] in body_ops and len(body_ops) == 1, CP, h["l"],
                   f"helper {s['evaluator']} must compute `{s['operator']}`; its body uses {sorted(body_ops)}")


M64 = (1 << 64) - 1


def _ck(v):
    return v if 0 <= v <= M64 else None  # the VM reverts on overflow/underflow (no wrapping flag is ever set by the compiler)


def _ilog(a, b):
    if a == 0 or b <= 1:
        return None
    r = 0
    while a >= b:
        a //= b
        r += 1
    return r


def _root(a, n):
    if n == 0:
        return None
    lo, hi = 0, a
    while lo < hi:
        mid = (lo + hi + 1) // 2
        if mid ** n <= a:
            lo = mid
        else:
            hi = mid - 1
    return lo


# FuelVM ALU semantics of the opcodes the propagator rewrites; None = the VM reverts (fuel-vm interpreter/alu.rs)
VM_SEM = {
    "ADD": lambda a, b: _ck(a + b), "SUB": lambda a, b: _ck(a - b), "MUL": lambda a, b: _ck(a * b),
    "DIV": lambda a, b: None if b == 0 else a // b, "MOD": lambda a, b: None if b == 0 else a % b,
    "EXP": lambda a, b: _ck(a ** b) if (a <= 1 or b <= 64) else None,
    "MLOG": _ilog, "MROO": _root,
    "AND": lambda a, b: a & b, "OR": lambda a, b: a | b, "XOR": lambda a, b: a ^ b,
    "SLL": lambda a, b: (a << b) & M64 if b < 64 else 0, "SRL": lambda a, b: a >> b if b < 64 else 0,
    "EQ": lambda a, b: int(a == b), "GT": lambda a, b: int(a > b), "LT": lambda a, b: int(a < b),
}


def identity_counterexample(op, side, const, result):
    """`if <side> is <const> assign <result>` must agree with the VM for every value of the other operand, reverts included.
    Evaluated over a witness set of boundary values of the unknown operand (0, 1, small, around the constant, around 64,
    powers of two, u64::MAX); returns a description of the first disagreement."""
    sem = VM_SEM.get(op)
    if sem is None or not re.fullmatch(r"\d+", const):
        return f"no VM semantics recorded for {op} / non-literal constant {const}"
    c = int(const)
    ws = sorted({v for v in [0, 1, 2, 3, 5, 7, 31, 32, 33, 63, 64, 65, 127, 255, 256, 1 << 16, 1 << 32, (1 << 32) + 1, 1 << 62, 1 << 63, (1 << 63) + 1, M64 - 1, M64,
                             c - 1, c, c + 1, 2 * c, 2 * c + 1] if 0 <= v <= M64})
    for y in ws:
        a, b = (c, y) if side == "left" else (y, c)
        want = sem(a, b)
        got = a if result == "left" else b if result == "right" else int(result) if re.fullmatch(r"\d+", result) else "?"
        if got == "?":
            return f"unrecognised result `{result}`"
        if want != got:
            return (f"{op}({a}, {b}) " + ("reverts in the VM" if want is None else f"is {want}") + f", the rewrite yields {got}")
    return None


def run(rep):
    rep.explanation = (
        "Decides (R1) that every rewrite the abstract-instruction constant propagator can perform on an arithmetic opcode "
        "is taken from a table of identities valid for every run-time value of the unknown operand, with the evaluator "
        "that yields no constant exactly when the VM would revert; (R2) that the ISA def/use/side-effect tables asm DCE, "
        "move elimination and the propagator's reset-on-def rely on are complete and consistent. Does not decide the "
        "optimizers' dataflow.")
    rep.trusted = ["syn", "spec/asm_identities.txt, spec/isa.txt (written from fuel-asm / fuel-vm 0.66 sources)"]
    rule_r1(rep)
    rule_isa(rep)
    rule_kill_discipline(rep)
    rule_deletion_flags(rep)
    rule_tracked_arithmetic(rep)


# ---- R2: ISA tables that asm DCE / move elimination / the propagators' reset-on-def rely on ---------------------------
def rule_isa(rep):
    from lib import isa
    import C08
    t = tab.tree(isa.VOPS)
    vs = isa.variants(t)
    spec = C08.load_isa()
    T = {}
    for name in ("use_registers", "def_registers", "has_side_effect"):
        T[name] = isa.match_table(tab.fn(t, name, "VirtualOp"), vs)
    for name in T:
        rep.ob("R2-no-catch-all", f"VirtualOp::{name}", not T[name][1], isa.VOPS, 0, f"catch-all arm in VirtualOp::{name}")
    for v, info in vs.items():
        sp = spec.get(v)
        u = isa.vec_positions(T["use_registers"][0][v][0]) if v in T["use_registers"][0] else None
        d = isa.vec_positions(T["def_registers"][0][v][0]) if v in T["def_registers"][0] else None
        if sp is None or u is None or d is None:
            rep.ob("R2-isa-roles", f"VirtualOp::{v}", False, isa.VOPS, info["line"], f"{v}: operand roles not readable / not in spec/isa.txt")
            continue
        eff = v in T["has_side_effect"][0] and C08.lit_true(T["has_side_effect"][0][v][0])
        rep.ob("R2-isa-roles", f"VirtualOp::{v}", sorted(d) == sorted(sp["d"]) and set(sp["u"]) <= set(u), isa.VOPS, info["line"],
               f"{v}: def {d} / use {u} disagree with the VM's operand roles def {sp['d']} / use {sp['u']}: asm DCE and the propagators "
               "kill or keep the wrong registers")
        if sp["effect"] or (not d and v not in C08.NO_DEF_NO_EFFECT_OK):
            rep.ob("R2-side-effect", f"VirtualOp::{v}", eff, isa.VOPS, info["line"],
                   f"{v} has an effect beyond its def registers but has_side_effect() is not `true`: asm DCE deletes it when its result is dead")
    rep.floor("R2-isa-roles", 100)


# ---- R3: kill discipline of the register-contents trackers ---------------------------------------------------------------
CIA = "sway-core/src/asm_generation/fuel/optimizations/const_indexed_aggregates.rs"


def _calls_named(node, name):
    return [n for k, nm, n in tab.calls(node) if k == "call" and tab.last_seg(nm) == name]


def _arg_names(call):
    out = []
    for a in call.get("args", []):
        while a.get("k") in ("Ref", "Paren"):
            a = a["expr"]
        out.append(a.get("path") if a.get("k") == "Path" else None)
    return out


def covers(node, dest, helpers):
    """Every path through `node` records a new definition of `dest` (or drops the instruction)."""
    k = node.get("k")
    if k == "Block":
        return any(covers(s, dest, helpers) for s in node.get("stmts", []))
    if k in ("If", "IfLet"):
        els = node.get("else")
        return bool(els) and covers(node["then"], dest, helpers) and covers(els, dest, helpers)
    if k == "Match":
        return all(covers(a["body"], dest, helpers) for a in node["arms"])
    if k == "Assign":
        if tab.show(node["left"]) == "*op" and tab.show(node["right"]).endswith("VirtualOp::NOOP"):
            return True  # the instruction is replaced by a NOOP: nothing defines `dest` on this path any more
        return node["left"].get("path") == "retain" and node["right"].get("v") is False
    if k == "Call":
        nm = tab.last_seg(node["func"].get("path", ""))
        args = _arg_names(node)
        if nm == "record_new_def":
            return len(args) >= 2 and args[1] == dest
        if nm in helpers:
            params, body = helpers[nm]
            if dest in args:
                return covers(body, params[args.index(dest)], helpers)
        return False
    if k in ("For", "ForLoop"):
        # `for def_reg in op.def_registers() { .. record_new_def(.., def_reg) }`
        it = node.get("iter") or node.get("expr") or {}
        if dest == "*defs" and any(nm == "def_registers" for kk, nm, _ in tab.calls(it)):
            pat = node.get("pat", {})
            return covers(node["body"], pat.get("name"), helpers)
        return False
    if k in ("Semi", "ExprStmt", "Paren", "Unsafe"):
        return covers(node.get("expr", {}), dest, helpers) if node.get("expr") else False
    if k == "Let":
        return False
    return False


def reads_after_kill(block):
    """(line) of a table read that follows record_new_def in the same statement list: the operand may be the register
    whose version was just bumped."""
    bad = []
    for b in [n for n in tab.walk(block) if n.get("k") == "Block"]:
        killed = False
        for s in b.get("stmts", []):
            if killed:
                if _calls_named(s, "get_def_version") or any(nm == "get" and "reg_contents" in str(n.get("recv")) for k, nm, n in tab.calls(s) if k == "method"):
                    bad.append(s.get("l", 0))
            # a direct (unconditional) kill at this level
            if s.get("k") in ("Call", "Semi", "ExprStmt") and _calls_named(s, "record_new_def") and not tab.find(s, "If") and not tab.matches_in(s):
                killed = True
    return bad


def rule_kill_discipline(rep):
    from lib import isa
    import C08
    t = tab.tree(CIA)
    f = tab.fn(t, "const_indexing_aggregates_function")
    spec = C08.load_isa()
    vs = isa.variants(tab.tree(isa.VOPS))
    helpers = {}
    for h in tab.find(f["body"], "Fn"):
        params = [(p.get("pat") or {}).get("name") for p in h.get("sig", {}).get("inputs", [])]
        helpers[h["name"]] = (params, h["body"])
    # the match over VirtualOp variants inside the retain_mut closure
    rows, wild, m = isa.match_table(dict(body=f["body"], name=f["name"]), vs)
    rep.ob("R3-tracker-dispatch-found", "const_indexing_aggregates_function", len(rows) >= 6 and len(wild) == 1, CIA, f.get("l", 0),
           f"expected the VirtualOp dispatch with a default arm (found {len(rows)} variant arms, {len(wild)} default arms)")
    for v, rs in rows.items():
        sp = spec.get(v)
        if not sp:
            continue
        for r in rs:
            for pos in sp["d"]:
                dest = r["binders"][pos]
                if dest is None:
                    rep.ob("R3-kill-on-every-def", f"{v}|operand{pos}", False, CIA, r["line"],
                           f"the {v} arm does not bind the register it defines (operand {pos}): its new definition cannot be recorded")
                    continue
                ok = covers(r["arm"]["body"], dest, helpers)
                rep.ob("R3-kill-on-every-def", f"{v}|{dest}", ok, CIA, r["line"],
                       f"a path through the {v} arm keeps the instruction without record_new_def(.., {dest}): facts recorded about `{dest}` "
                       "(or with it as base register) stay valid although it was overwritten, and a later LW/SW is rewritten through a stale base")
    for a in wild:
        rep.ob("R3-kill-on-every-def", "default-arm", covers(a["body"], "*defs", helpers), CIA, a.get("l", 0),
               "the default arm must record a new definition for every register in op.def_registers()")
    rep.floor("R3-kill-on-every-def", 6)
    bad = reads_after_kill(f["body"])
    rep.ob("R3-reads-before-kill", "const_indexing_aggregates_function", not bad, CIA, bad[0] if bad else f.get("l", 0),
           "a version/contents lookup follows record_new_def in the same transfer function: when the destination is also an operand "
           "(`addi r r K`) the lookup sees the new version and the stale fact `r = r + K` is recorded as valid")
    # the validity test of a BaseOffset fact compares the recorded version with the *base register's* current version
    n_cmp = 0
    for n in tab.walk(f["body"]):
        if n.get("k") == "Binary" and n.get("op") == "==":
            sides = [n["left"], n["right"]]
            g = [x for x in sides if x.get("k") == "Call" and tab.last_seg(x["func"].get("path", "")) == "get_def_version"]
            fld = [x for x in sides if x.get("k") == "Field" and x.get("member") == "ver"]
            if g or fld:
                n_cmp += 1
                ok = False
                if g and fld:
                    arg = g[0]["args"][1]
                    while arg.get("k") in ("Ref", "Paren"):
                        arg = arg["expr"]
                    ok = arg.get("k") == "Field" and arg.get("member") == "reg" and \
                        (arg["base"].get("path") == fld[0]["base"].get("path"))
                rep.ob("R3-version-compared-with-its-register", f"cmp#{n_cmp}", ok, CIA, n.get("l", 0),
                       "a recorded definition version `X.ver` must be compared with get_def_version(.., &X.reg) of the same X; comparing it "
                       "with another register's version validates a fact about a register that has since been overwritten")
    rep.floor("R3-version-compared-with-its-register", 3, n_cmp)


OPT_FILES = ["misc.rs", "reachability.rs", "constant_propagate.rs", "const_indexed_aggregates.rs", "mod.rs", "verify.rs"]
REVIEWED_DELETERS = {
    "simplify_cfg": "removes only instructions that no path from the entry reaches: nothing executes them, so no flag write is lost",
}


def rule_deletion_flags(rep):
    """R4: every ALU instruction (MOVE and NOOP included) rewrites $of and $err. A pass may overwrite an instruction with NOOP
    (same effect on the flags) freely, but a pass that *deletes* instructions from `self.ops` changes what a later direct read of
    $of/$err observes unless it accounts for the constant registers the deleted instruction defines (`def_const_registers`, as
    dce and remove_redundant_ops do) or only deletes unreachable code (reviewed)."""
    OPT = "sway-core/src/asm_generation/fuel/optimizations/"
    n = 0
    import os
    from lib.common import REPO
    for fn_ in OPT_FILES:
        rel = OPT + fn_
        if not os.path.exists(os.path.join(REPO, rel)):
            continue
        t = tab.tree(rel)
        for f in [x for x in tab.walk(t) if x.get("k") == "Fn" and x.get("body")]:
            if any(a for a in f.get("attrs", []) if "test" in str(a)):
                continue
            body = f["body"]
            dels = []
            for x in tab.walk(body):
                if x.get("k") == "MethodCall" and x["method"] in ("remove", "retain", "retain_mut", "drain", "truncate", "pop", "swap_remove", "dedup", "dedup_by", "dedup_by_key", "clear") \
                        and tab.show(x["recv"]) in ("self.ops", "ops"):
                    dels.append((x["l"], f"self.ops.{x['method']}(..)"))
                if x.get("k") == "Assign" and tab.show(x["left"]) == "self.ops":
                    dels.append((x["l"], "self.ops = .."))
                if x.get("k") == "Call" and tab.show(x["func"]).endswith("mem::swap") and any(tab.show(a_) == "&mut self.ops" for a_ in x["args"]):
                    dels.append((x["l"], "mem::swap(&mut self.ops, ..)"))
            if not dels:
                continue
            # rebuilding self.ops one-to-one (map without filter) is not a deletion
            txt = tab.show(body)
            filters = bool(re.search(r"\.(filter|filter_map|skip|take|skip_while|take_while|flat_map)\(", txt)) or any("remove" in d or "retain" in d or "drain" in d or "truncate" in d or "pop" in d or "dedup" in d or "clear" in d for _, d in dels) \
                or any(i_.get("k") == "If" and any(m_.get("k") == "MethodCall" and m_["method"] == "push" for m_ in tab.walk(i_)) for i_ in tab.walk(body))
            # `retain(|op| { .. flag })` whose flag is a `let flag = true` that is never assigned cannot delete anything
            for x in tab.walk(body):
                if x.get("k") == "MethodCall" and x["method"] in ("retain", "retain_mut") and x["args"] and x["args"][0].get("k") == "Closure":
                    cb = x["args"][0]["body"]
                    last = cb["stmts"][-1] if cb.get("k") == "Block" and cb["stmts"] else cb
                    if last.get("k") == "Path":
                        v = last["path"]
                        inits = [tab.show(i_) for l_, names_, _, i_ in tab.lets(cb) if names_ == [v]]
                        assigned = any(a_.get("k") == "Assign" and tab.show(a_["left"]) == v for a_ in tab.walk(cb))
                        if [i_.lower() for i_ in inits] == ["true"] and not assigned:
                            dels = [d for d in dels if d[0] != x["l"]]
            if not dels:
                continue
            filters = bool(re.search(r"\.(filter|filter_map|skip|take|skip_while|take_while|flat_map)\(", txt)) or any("remove" in d or "retain" in d or "drain" in d or "truncate" in d or "pop" in d or "dedup" in d or "clear" in d for _, d in dels) \
                or any(i_.get("k") == "If" and any(m_.get("k") == "MethodCall" and m_["method"] == "push" for m_ in tab.walk(i_)) for i_ in tab.walk(body))
            if not filters:
                continue
            n += 1
            aware = any(x.get("k") == "MethodCall" and x["method"] == "def_const_registers" for x in tab.walk(body))
            name = f["name"]
            if name in REVIEWED_DELETERS and not aware:
                rep.ob("R4-deletion-accounts-for-flag-registers", name, True, rel, f["l"], "reviewed: " + REVIEWED_DELETERS[name])
                continue
            if aware:
                # the decision must not be taken from the op that merely follows in the list (it may be a label or a jump; F16)
                adj = []
                for st_ in [x for x in tab.walk(body) if x.get("k") in ("Let", "Assign", "If")]:
                    sub = list(tab.walk(st_))
                    if any(y.get("k") == "MethodCall" and y["method"] == "def_const_registers" for y in sub) and \
                            any(y.get("k") == "MethodCall" and y["method"] in ("peek", "windows", "next_if", "nth") for y in sub):
                        adj.append(st_["l"])
                rep.ob("R4-flag-check-follows-control-flow", name, not adj, rel, adj[0] if adj else f["l"],
                       f"{name} decides whether a deleted instruction's write of $of/$err is observed by looking at the op that follows it in the list "
                       "(peek / windows); the next op executed can be behind a jump or a label, so the check has to come from a control-flow-aware analysis")
            rep.ob("R4-deletion-accounts-for-flag-registers", name, aware, rel, dels[0][0],
                   f"{name} deletes instructions from the instruction list ({', '.join(d for _, d in dels)}) without consulting def_const_registers(): every ALU "
                   "instruction, MOVE and NOOP included, resets $of/$err, so deleting one (instead of overwriting it with NOOP) changes what a following "
                   "direct read of $of/$err sees")
    rep.floor("R4-deletion-accounts-for-flag-registers", 3, n)  # dce, simplify_cfg, remove_redundant_ops


def rule_tracked_arithmetic(rep):
    """R5: the const-indexed-aggregate tracker computes with the 64-bit contents it believes registers to hold. Every `a + b` / `a * b` /
    `a - b` / `a << b` on such values sits in a match arm (or if) whose guard establishes with the matching `checked_*` call on the
    same operands that the result fits (the pattern process_add uses); an unguarded one panics a debug-built compiler and wraps
    silently in a release-built one (findings/F21)."""
    rel = "sway-core/src/asm_generation/fuel/optimizations/const_indexed_aggregates.rs"
    t = tab.tree(rel)
    OPS = {"+": "checked_add", "*": "checked_mul", "-": "checked_sub", "<<": "checked_shl"}
    n = 0

    def guards_of(root, target):
        out = []
        stack = [(root, [])]
        while stack:
            node, path = stack.pop()
            if node is target:
                for a in path:
                    if a.get("guard") is not None and "pat" in a:
                        out.append(tab.show(a["guard"]))
                    if a.get("k") == "If":
                        out.append(tab.show(a["cond"]))
                return out
            for v in (node.values() if isinstance(node, dict) else node if isinstance(node, list) else []):
                if isinstance(v, (dict, list)):
                    stack.append((v, path + ([node] if isinstance(node, dict) else [])))
        return out
    for f in [x for x in tab.walk(t) if x.get("k") == "Fn" and x.get("body")]:
        if any("test" in str(a) for a in f.get("attrs", [])):
            continue
        for b in [x for x in tab.walk(f["body"]) if x.get("k") == "Binary" and x["op"] in OPS]:
            l_, r_ = tab.show(b["left"]).lstrip("*&"), tab.show(b["right"]).lstrip("*&")
            if not (re.fullmatch(r"\w+", l_) and re.fullmatch(r"\w+", r_)):
                continue  # only value-with-value arithmetic on bound names (c1 * c2, offset + c2)
            if re.fullmatch(r"\d+", l_) or re.fullmatch(r"\d+", r_):
                continue
            n += 1
            gs = guards_of(f["body"], b)
            want = OPS[b["op"]]
            ok = any(re.search(r"\b%s\.%s\(\*?&?%s\)\.is_some\(\)" % (re.escape(l_), want, re.escape(r_)), g) for g in gs)
            rep.ob("R5-tracked-arithmetic-is-checked", f"{f['name']}|{l_}{b['op']}{r_}", ok, rel, b["l"],
                   f"`{l_} {b['op']} {r_}` on tracked register contents is not guarded by `{l_}.{want}({r_}).is_some()`: the product / sum of two known constants "
                   "can exceed 64 bits (a debug-built compiler panics, a release-built one tracks a wrapped value)")
    rep.floor("R5-tracked-arithmetic-is-checked", 3, n)

