"""C08 Register allocation never clobbers a live value — structural clauses.

R1 operand-role tables of VirtualOp: registers = all register positions; use ∪ def = registers; use_registers_mut agrees
   with use_registers; def/use equal the FuelVM roles of spec/isa.txt (def exact, use ⊇); def = ∅ ⇒ has_side_effect.
R2 successor tables: a virtual op omits its fall-through only if it never returns (RVRT/RET/RETD); control-flow ops list
   jump target (and fall-through for conditional jumps / calls).
R3 register rewriting is position preserving: update_register and allocate_registers rebuild the same variant with each
   register position mapped and each immediate copied, in order; ControlFlowOp tables agree with each other.
R4 (E-MIR) interference is recorded as one directed edge per (def, live-out) pair, so every consumer must read the graph
   undirected; the liveness -> interference -> coalescing -> colouring chain is wired with the values it computed.
R5 (E-MIR) liveness equations: live_out[i] ∪= live_in[succ(i)], live_in[i] = use(i) ∪ (live_out[i] − def(i)).
"""
import os, re
from lib import tab, isa, mir, panics
from lib.common import VERIF, AnalysisError

LEVEL = "other"
VOPS = isa.VOPS
MOD = "sway-core/src/asm_lang/mod.rs"
RA = "sway_core::asm_generation::fuel::register_allocator"
NO_DEF_NO_EFFECT_OK = {"NOOP", "Undefined"}
NEVER_RETURNS = {"RVRT", "RET", "RETD"}
# operand positions that stand for a fixed machine register ($hp / $sp): copied by update_register, absent from the
# allocated instruction (the VM instruction has no such operand)
PSEUDO = {"ALOC": [0], "CFEI": [0], "CFSI": [0], "CFE": [0], "CFS": [0]}


def load_isa():
    out = {}
    for ln in open(os.path.join(VERIF, "spec/isa.txt")):
        if ln.startswith("#") or not ln.strip():
            continue
        p = ln.rstrip("\n").split("\t")
        pos = lambda s: [int(x) for x in s.split("=")[1].split(",") if x != ""]
        out[p[0]] = dict(d=pos(p[1]), u=pos(p[2]), effect=p[3] == "effect")
    return out


def lit_true(row):
    b = row["arm"]["body"]
    while b.get("k") == "Block" and len(b.get("stmts", [])) == 1:
        b = b["stmts"][0]
    return b.get("k") == "Lit" and b.get("v") is True


def run(rep):
    t = tab.tree(VOPS)
    vs = isa.variants(t)
    spec = load_isa()
    rep.explanation = (
        "Decides that the tables the register allocator is built on are complete and right: every register operand of every "
        "VirtualOp variant is classified as read and/or written exactly as the FuelVM defines; rewriting (coalescing, final "
        "assignment) maps every operand position; successors never omit a real control-flow edge; the interference graph is "
        "queried undirected; liveness uses the textbook equations over those tables. The colouring / spilling algorithm is not decided.")
    rep.trusted = ["syn", "rustc MIR", "spec/isa.txt (operand roles from the FuelVM ISA / fuel-asm 0.66.4)", "petgraph semantics"]
    T = {}
    for name in ["registers", "use_registers", "use_registers_mut", "def_registers", "has_side_effect", "update_register", "successors"]:
        f = tab.fn(t, name, "VirtualOp")
        rows, wild, m = isa.match_table(f, vs)
        T[name] = (rows, wild, f)
    # allocate_registers has a preamble; the table is the match over `self`
    f = tab.fn(t, "allocate_registers", "VirtualOp")
    T["allocate_registers"] = isa.match_table(f, vs) [:2] + (f,)

    for name in ["registers", "use_registers", "use_registers_mut", "def_registers", "has_side_effect", "update_register", "allocate_registers"]:
        rows, wild, f = T[name]
        rep.ob("R1-no-catch-all", f"VirtualOp::{name}", not wild, VOPS, f.get("l", 0),
               f"VirtualOp::{name} has a catch-all arm: a new instruction silently gets a default operand classification")
    for v, info in vs.items():
        line = info["line"]
        def pos(name):
            rows = T[name][0].get(v)
            if not rows:
                return None
            return isa.vec_positions(rows[0])
        allp, use, usem, d = pos("registers"), pos("use_registers"), pos("use_registers_mut"), pos("def_registers")
        if None in (allp, use, usem, d) or any(x is None for lst in (allp, use, usem, d) for x in lst):
            rep.ob("R1-table-readable", f"VirtualOp::{v}", False, VOPS, line,
                   f"operand table arm for {v} is not a plain vec![..] of the pattern's binders (registers={allp} use={use} use_mut={usem} def={d})")
            continue
        rep.ob("R1-registers-lists-every-register-operand", f"VirtualOp::{v}", sorted(allp) == info["regs"], VOPS, line,
               f"registers() lists positions {allp} but the variant's VirtualRegister fields are {info['regs']}: an unlisted register is "
               "never given a node in the interference graph / never mapped by the allocator")
        rep.ob("R1-use-def-partition", f"VirtualOp::{v}", sorted(set(use) | set(d)) == info["regs"], VOPS, line,
               f"use {use} ∪ def {d} ≠ register operands {info['regs']}: an operand that is neither read nor written is invisible to liveness")
        rep.ob("R1-use-mut-agrees", f"VirtualOp::{v}", use == usem, VOPS, line,
               f"use_registers {use} and use_registers_mut {usem} disagree: spill code rewrites different operands than liveness tracks")
        sp = spec.get(v)
        if sp is None:
            rep.ob("R1-spec-roles", f"VirtualOp::{v}", False, VOPS, line, f"unclassified instruction {v}: add its operand roles to spec/isa.txt")
            continue
        rep.ob("R1-spec-def", f"VirtualOp::{v}", sorted(d) == sorted(sp["d"]), VOPS, line,
               f"def_registers {d} but the VM writes positions {sp['d']}: a missed def creates no interference edges (the written register can "
               "share a machine register with a live value); a spurious def ends the operand's live range early")
        rep.ob("R1-spec-use", f"VirtualOp::{v}", set(sp["u"]) <= set(use), VOPS, line,
               f"use_registers {use} misses positions the VM reads {sp['u']}: the value is dead to liveness and its register may be reused before this instruction")
        se_rows = T["has_side_effect"][0].get(v)
        eff = bool(se_rows) and lit_true(se_rows[0])
        if not d and v not in NO_DEF_NO_EFFECT_OK:
            rep.ob("R1-no-def-implies-effect", f"VirtualOp::{v}", eff, VOPS, line,
                   f"{v} defines no register but has_side_effect is not `true`: asm DCE deletes it")
        if sp["effect"]:
            rep.ob("R1-spec-effect", f"VirtualOp::{v}", eff, VOPS, line, f"{v} has an effect beyond its def registers (spec/isa.txt) but has_side_effect is not `true`")
    rep.floor("R1-spec-def", 100)

    # ---- R3 position-preserving rewriting -----------------------------------------------------------------------
    for name, helper, ctor_prefix in (("update_register", "update_reg", ("Self", "VirtualOp")),
                                      ("allocate_registers", "map_reg", ("AllocatedInstruction", "AllocatedOpcode"))):
        rows = T[name][0]
        for v, info in vs.items():
            rs = rows.get(v)
            if not rs:
                rep.ob("R3-rewrite-covers-variant", f"{name}|{v}", False, VOPS, info["line"], f"VirtualOp::{name} has no arm for {v}")
                continue
            r = rs[0]
            b = r["arm"]["body"]
            while b.get("k") == "Block" and len(b.get("stmts", [])) == 1:
                b = b["stmts"][0]
            probs = []
            n = len(info["types"])
            if n == 0:
                ok = (b.get("k") == "Path" and tab.last_seg(b["path"]) == v) or (b.get("k") in ("MethodCall",) and b.get("method") == "clone")
                if not ok and b.get("k") == "Call":
                    ok = tab.last_seg(b["func"].get("path", "")) == v
                rep.ob("R3-position-preserving", f"{name}|{v}", ok, VOPS, r["line"], f"{name} arm of unit variant {v} does not rebuild {v}")
                continue
            if b.get("k") != "Call" or b["func"].get("k") != "Path":
                rep.ob("R3-position-preserving", f"{name}|{v}", False, VOPS, r["line"], f"{name} arm of {v} is not a constructor call")
                continue
            path = b["func"]["path"].split("::")
            if path[-1] != v or (len(path) > 1 and path[-2] not in ctor_prefix):
                probs.append(f"rebuilds {b['func']['path']} instead of {v}")
            args = b.get("args", [])
            pseudo = PSEUDO.get(v, [])
            positions = list(range(n))
            if name == "allocate_registers":
                positions = [i for i in positions if i not in pseudo]
            if len(args) != len(positions):
                probs.append(f"{len(args)} operands rebuilt, variant has {len(positions)}")
            for i, a in zip(positions, args):
                want = r["binders"][i]
                is_reg = i in info["regs"] and i not in pseudo
                if is_reg:
                    ok = a.get("k") == "Call" and tab.last_seg(a["func"].get("path", "")) == helper and a.get("args") and \
                        _names(a["args"][-1]) == [want]
                    if not ok:
                        probs.append(f"register operand {i} is not {helper}(.., {want})")
                else:
                    if _names(a) != [want]:
                        probs.append(f"immediate operand {i} is not copied from `{want}`")
            rep.ob("R3-position-preserving", f"{name}|{v}", not probs, VOPS, r["line"],
                   "; ".join(probs) + " — the rewritten instruction differs from the virtual one in which register sits in which operand slot")
    rep.floor("R3-position-preserving", 200)

    # ---- R2 successors --------------------------------------------------------------------------------------------
    rows, wild, f = T["successors"]
    for v, rs in rows.items():
        b = rs[0]["arm"]["body"]
        while b.get("k") == "Block" and len(b.get("stmts", [])) == 1:
            b = b["stmts"][0]
        empty = b.get("k") == "Macro" and b.get("name") == "vec" and not b.get("args")
        if empty:
            rep.ob("R2-fallthrough-omitted-only-for-non-returning", f"VirtualOp::{v}", v in NEVER_RETURNS, VOPS, rs[0]["line"],
                   f"successors() gives {v} no successor although execution continues with the next instruction: everything live after it is dead to liveness")
        else:
            rep.ob("R2-fallthrough-omitted-only-for-non-returning", f"VirtualOp::{v}", "next_op" in tab.idents_used(b), VOPS, rs[0]["line"],
                   f"successors() arm of {v} does not return the fall-through `next_op`")
    wild_ok = bool(wild) and all("next_op" in tab.idents_used(a["body"]) for a in wild)
    rep.ob("R2-default-successor-is-fallthrough", "VirtualOp::successors", wild_ok, VOPS, f.get("l", 0),
           "the default arm of VirtualOp::successors must return the fall-through instruction")
    # next_op = [index+1] unless index is the last instruction
    tm = tab.tree(MOD)
    cf = tab.fn(tm, "successors", "ControlFlowOp")
    cvs = isa.variants(tm, "ControlFlowOp", "Reg")
    crow, cwild, cm = isa.match_table(cf, cvs)
    rep.ob("R2-no-catch-all", "ControlFlowOp::successors", not cwild, MOD, cf.get("l", 0), "catch-all arm in ControlFlowOp::successors")
    def pushes(node):
        out = []
        for kind, nm, n in tab.calls(node):
            if kind == "method" and nm == "push":
                a = n["args"][0]
                if a.get("k") == "Index":
                    out.append("target")
                elif a.get("k") == "Binary":
                    out.append("next")
                else:
                    out.append("?")
        return out
    for v in ("Label", "Comment", "DataSectionOffsetPlaceholder", "ConfigurablesOffsetPlaceholder", "PushAll", "PopAll"):
        rs = crow.get(v)
        ok = bool(rs) and pushes(rs[0]["arm"]["body"]) == ["next"]
        rep.ob("R2-control-flow-successors", f"ControlFlowOp::{v}", ok, MOD, rs[0]["line"] if rs else 0,
               f"{v} must have exactly the fall-through successor")
    jrs = crow.get("Jump")
    ok_j = False
    if jrs:
        inner = tab.matches_in(jrs[0]["arm"]["body"])
        if inner:
            arms = tab.arms_by_variant(inner[0])
            want = {"Unconditional": ["target"], "NotZero": ["target", "next"], "Call": ["next"]}
            got = {k: sorted(pushes(arms[k][0][0]["body"])) if k in arms else None for k in want}
            ok_j = all(got[k] is not None and got[k] == sorted(want[k]) for k in want) and not tab.has_wildcard_arm(inner[0])
            if not ok_j:
                rep.note(f"Jump successors found: {got}")
    rep.ob("R2-control-flow-successors", "ControlFlowOp::Jump", ok_j, MOD, jrs[0]["line"] if jrs else 0,
           "Jump successors must be: Unconditional -> target; NotZero -> target and fall-through; Call -> fall-through")
    rep.floor("R2-control-flow-successors", 7)

    # ControlFlowOp register tables agree
    ctabs = {}
    for name in ("registers", "use_registers", "use_registers_mut", "update_register"):
        fn_ = tab.fn(tm, name, "ControlFlowOp")
        ctabs[name] = _cf_regs(fn_)
    base = ctabs["registers"]
    for name in ("use_registers", "use_registers_mut", "update_register"):
        rep.ob("R3-control-flow-tables-agree", f"ControlFlowOp::{name}", ctabs[name] == base and bool(base), MOD, 0,
               f"ControlFlowOp::{name} handles register operands {sorted(ctabs[name])} but registers() lists {sorted(base)}")
    rep.ob("R3-control-flow-tables-agree", "ControlFlowOp::registers", {"r1", "r0", "zero", "reta"} <= base, MOD, 0,
           f"ControlFlowOp::registers must list the NotZero condition, the JumpToAddr target and both ReturnFromCall registers (found {sorted(base)})")

    # ---- R4 / R5 (E-MIR) -----------------------------------------------------------------------------------------------
    F = mir.Facts(["sway_core"])
    n_q = 0
    for f in F.fns.values():
        if not f.name.startswith(RA) or f.exp:
            continue
        for bi, tt in f.calls():
            nm = tt.get("fp", "")
            m = re.search(r"(?:StableGraph|Graph)::<N, E, Ty, Ix>::(neighbors|neighbors_directed|neighbors_undirected|edges|edges_directed|edges_connecting|find_edge|contains_edge|find_edge_undirected)$", nm)
            if not m:
                continue
            n_q += 1
            q = m.group(1)
            base = f.name
            if q in ("neighbors_undirected", "find_edge_undirected"):
                rep.ob("R4-interference-read-undirected", f"{base}|{q}", True, f.file, tt["ln"], "")
            elif q == "edges_directed":
                # allowed only in the helpers that are combined (Outgoing chained with Incoming) by get_connected_neighbours / delete_edges
                dirs = _direction(f, tt)
                fam = f.name.split("::{closure")[0]
                sibling_dirs = set()
                parent = fam.rsplit("::", 1)[0]
                for g in F.fns.values():
                    if g.name.split("::{closure")[0] == fam:
                        for _, t2 in g.calls():
                            if (t2.get("fp", "")).endswith("edges_directed"):
                                sibling_dirs.add(_direction(g, t2))
                ok = sibling_dirs >= {"Outgoing", "Incoming"} or fam.endswith(("get_connected_outgoing_neighbors", "get_connected_incoming_neighbors"))
                rep.ob("R4-interference-read-undirected", f"{base}|edges_directed:{dirs}", ok, f.file, tt["ln"],
                       f"edges_directed({dirs}) alone sees only half of the interference edges (each is stored once, def -> live-out)")
            elif q in ("contains_edge", "find_edge"):
                # fine when asked in both directions, or when it only guards the insertion of an edge between the same two nodes
                me = frozenset(str(panics.root_local(f, a)) for a in tt["a"][1:3])
                sym = [t2 for _, t2 in f.calls() if t2 is not tt and (t2.get("fp", "")).endswith(q)
                       and [str(panics.root_local(f, a)) for a in t2["a"][1:3]] == [str(panics.root_local(f, a)) for a in tt["a"][1:3]][::-1]]
                guards_insert = [t2 for _, t2 in f.calls() if re.search(r"::(update_edge|add_edge)$", t2.get("fp", ""))
                                 and frozenset(str(panics.root_local(f, a)) for a in t2["a"][1:3]) == me]
                rep.ob("R4-interference-read-undirected", f"{base}|{q}", bool(sym or guards_insert), f.file, tt["ln"],
                       f"`{q}(a, b)` is asked in one direction only (edges are stored once, def -> live-out): an interference recorded as "
                       "(b, a) is missed")
            else:
                rep.ob("R4-interference-read-undirected", f"{base}|{q}", False, f.file, tt["ln"],
                       f"`{q}` on the directed interference graph only sees edges in one direction: a register interfering through an "
                       "incoming edge is treated as compatible and may get the same machine register")
    rep.floor("R4-interference-read-undirected", 8, n_q)
    # the one-direction helpers may only be used together, or for the documented incoming-degree tie-break
    for f in F.fns.values():
        if not f.name.startswith(RA) or f.exp:
            continue
        uses = {"out": [], "in": []}
        for bi, tt in f.calls():
            nm = tt.get("fp", "")
            if nm.endswith("get_connected_outgoing_neighbors"):
                uses["out"].append(tt)
            if nm.endswith("get_connected_incoming_neighbors"):
                uses["in"].append(tt)
        if uses["out"] or uses["in"]:
            fam = f.name
            # the spill-priority heuristic of color_interference_graph counts incoming edges only (documented; affects which
            # register is spilled, never which registers interfere)
            ok = (bool(uses["out"]) and bool(uses["in"])) or fam.split("::{closure")[0].endswith("color_interference_graph")
            rep.ob("R4-one-direction-helpers", fam, ok, f.file, (uses["out"] + uses["in"])[0]["ln"],
                   "a one-direction neighbour helper is used on its own")
    # wiring of try_color
    tc = F.fn(RA + "::allocate_registers::try_color")
    calls = {}
    for bi, tt in tc.calls():
        nm = (tt.get("fp", "")).split("::")[-1]
        calls.setdefault(nm, []).append(tt)
    def one(nm):
        xs = calls.get(nm, [])
        return xs[0] if len(xs) == 1 else None
    la, cg, co, col = one("liveness_analysis"), one("create_interference_graph"), one("coalesce_registers"), one("color_interference_graph")
    ok = all((la, cg, co, col))
    detail = "try_color must call liveness_analysis, create_interference_graph, coalesce_registers, color_interference_graph once each"
    if ok:
        def from_call(o, call, fieldidx=None):
            r = panics.root_call(tc, o)
            return bool(r and r[0] == "call" and r[1] is call)
        checks = [
            ("create_interference_graph(ops, &live_out) takes liveness_analysis' result", from_call(cg["a"][1], la)),
            ("liveness_analysis and create_interference_graph see the same ops", panics.root_local(tc, la["a"][0]) == panics.root_local(tc, cg["a"][0])),
            ("liveness ignores constant registers consistently (second argument `true`)", "c" in la["a"][1] and "true" in la["a"][1]["c"]),
            ("coalesce_registers takes the live_out computed by liveness_analysis", from_call(co["a"][1], la)),
            ("coalesce_registers and color_interference_graph work on the graph built by create_interference_graph",
             _same_root_var(tc, co["a"][2], col["a"][0])),
        ]
        bad = [c for c, v in checks if not v]
        ok = not bad
        detail = "; ".join(bad)
    rep.ob("R4-allocation-pipeline-wiring", tc.name, ok, tc.file, tc.lo, detail)

    # ---- R5 liveness equations ---------------------------------------------------------------------------------------
    lv = F.fn("sway_core::asm_generation::fuel::analyses::liveness_analysis")
    _liveness(rep, lv)
    # interference edges: for every def v of op ix and every b in live_out[ix] (b != v): edge(v, b)
    ig = F.fn(RA + "::create_interference_graph")
    edges = [tt for _, tt in ig.calls() if re.search(r"::update_edge$|::add_edge$", tt.get("fp", ""))]
    defs_calls = [tt for _, tt in ig.calls() if (tt.get("fp", "")).endswith("Op::def_registers")]
    uses_calls = [tt for _, tt in ig.calls() if (tt.get("fp", "")).endswith("Op::use_registers")]
    rep.ob("R5-interference-from-defs", ig.name, len(edges) >= 1 and len(defs_calls) >= 1 and not uses_calls, ig.file, ig.lo,
           f"create_interference_graph must add an edge for each def_registers() element against live_out (edge sites {len(edges)}, "
           f"def_registers calls {len(defs_calls)}, use_registers calls {len(uses_calls)})")
    # live_out[ix] and ops[ix] are indexed by the same enumerate counter
    idx_ok = _same_index(ig)
    rep.ob("R5-interference-indexing", ig.name, idx_ok, ig.file, ig.lo,
           "ops[..] must be indexed with the enumerate() index of the live_out row it is combined with")

    # ---- R6 spill code: every rewritten instruction goes through the store-back of its spilled defs ----------------------
    sp = F.fn(RA + "::spill")
    pushes = [(bi, tt) for bi, tt in sp.calls() if (tt.get("fp", "")).endswith("Vec::<T, A>::push") and panics.origin_var(sp, tt["a"][0]) == "spilled"]
    dcall = [(bi, tt) for bi, tt in sp.calls() if (tt.get("fp", "")).endswith("Op::def_registers")]
    ucall = [(bi, tt) for bi, tt in sp.calls() if (tt.get("fp", "")).endswith("Op::use_registers")]
    shape = len(dcall) == 1 and len(ucall) == 1 and len(pushes) >= 5
    rep.ob("R6-spill-shape", sp.name, shape, sp.file, sp.lo,
           f"spill(): expected one def_registers and one use_registers call per instruction and the refill/op/store pushes (found {len(dcall)}/{len(ucall)}/{len(pushes)})")
    if shape:
        dbb, ubb = dcall[0][0], ucall[0][0]
        # which pushes emit the original instruction
        orig = []
        for bi, tt in pushes:
            r_ = panics.trace_value(sp, tt["a"][1])
            is_clone = bool(r_ and r_[0] == "call" and re.search(r"<sway_core::asm_lang::Op as core::clone::Clone>::clone$", r_[1].get("rn") or r_[1].get("fn", "")))
            if is_clone:
                orig.append((bi, tt))
                continue
            # a freshly built Op: allowed before the def/use tables are consulted only for the CFEI/CFSI frame adjustments
            kinds = set()
            if r_ and r_[0] == "stmt" and r_[1]["r"]["k"] == "agg":
                for o in r_[1]["r"]["o"]:
                    v = panics.trace_value(sp, o) if "l" in o else None
                    hops = 0
                    while v and v[0] == "stmt" and v[1]["r"]["k"] == "agg" and hops < 3:
                        hops += 1
                        if v[1]["r"].get("adt", "").endswith("VirtualOp"):
                            kinds.add(v[1]["r"].get("var"))
                            break
                        inner = v[1]["r"]["o"][0] if v[1]["r"]["o"] else None
                        v = panics.trace_value(sp, inner) if inner and "l" in inner else None
            frame = kinds and kinds <= {"CFEI", "CFSI"}
            ok = frame or (sp.dominates(dbb, bi) and sp.dominates(ubb, bi))
            rep.ob("R6-emitted-after-def-use-lookup", f"{sp.name}|push:{'/'.join(sorted(kinds)) or '?'}", ok, sp.file, tt["ln"],
                   f"spill() emits a {sorted(kinds) or 'new'} instruction on a path that has not looked up the instruction's use/def registers: "
                   "a spilled register it defines is not stored back to its slot (later refills read a stale value), or a spilled operand is not refilled")
        rep.ob("R6-original-op-emitted-once", sp.name, len(orig) == 1, sp.file, sp.lo, f"expected exactly one push of `op.clone()` (found {len(orig)})")
        if len(orig) == 1:
            obi = orig[0][0]
            # the store-back loop: BTreeSet::iter on the def_registers() result
            store_iter = [bi for bi, tt in sp.calls() if re.search(r"BTreeSet::<T, A>::iter$", tt.get("fp", "")) and
                          _derives_from_call(sp, tt["a"][0], dcall[0][1])]
            refill_iter = [bi for bi, tt in sp.calls() if re.search(r"BTreeSet::<T, A>::iter$", tt.get("fp", "")) and
                           _derives_from_call(sp, tt["a"][0], ucall[0][1])]
            # loop header of the main loop: the Enumerate::next that yields `op`
            heads = [bi for bi, tt in sp.calls() if (tt.get("rn") or tt.get("fp", "")).endswith("Enumerate<I> as core::iter::traits::iterator::Iterator>::next")]
            head = [h for h in heads if obi in sp.reachable(h) and h in sp.reachable(obi)]
            ok_store = bool(store_iter) and bool(head) and all(h not in sp.reachable(obi, avoid=set(store_iter)) or h == obi for h in head)
            rep.ob("R6-defs-stored-after-op", sp.name, ok_store, sp.file, orig[0][1]["ln"],
                   "a path from the emitted instruction to the next one skips the loop that stores its spilled def registers to their stack slots")
            ok_refill = bool(refill_iter) and all(sp.dominates(r, obi) for r in refill_iter)
            rep.ob("R6-uses-refilled-before-op", sp.name, ok_refill, sp.file, orig[0][1]["ln"],
                   "the instruction is emitted on a path that skips the loop refilling its spilled use registers")
            # stores are SW [.., def] and refills LW [use, ..]: the register operand is the loop variable
        # the slot table is shared: both loops index spill_offsets_bytes with the register they handle
    rep.floor("R6-emitted-after-def-use-lookup", 4)
    rule_coalescing(rep)


def _derives_from_call(f, o, call, depth=8):
    defs = mir.defs_of(f)
    while depth > 0 and "l" in o:
        depth -= 1
        ds = defs.get(o["l"], [])
        if len(ds) != 1:
            return False
        _, _, k, srcs, node = ds[0]
        if k == "call":
            return node is call
        if k in ("use", "ref") and srcs:
            o = srcs[0]
            continue
        return False
    return False


def _names(e):
    """identifier names in a small argument expression (r1, i.clone(), *i, &r1)"""
    out = []
    for n in tab.walk(e):
        if n.get("k") == "Path" and "::" not in n["path"]:
            out.append(n["path"])
    return out


def _cf_regs(fn_):
    """set of binder names of register operands that the function's arms mention in their bodies."""
    used = set()
    for m in tab.matches_in(fn_["body"]):
        for a in m["arms"]:
            bs = set(tab.binders(a["pat"]))
            ids = tab.idents_used(a["body"])
            used |= {b for b in bs if b in ids and b not in ("to", "type_")}
    return used


def _direction(f, tt):
    for a in tt.get("a", []):
        if "c" in a:
            m = re.search(r"(Outgoing|Incoming)", a["c"])
            if m:
                return m.group(1)
        else:
            v = panics.trace_value(f, a)
            if v and v[0] == "const":
                m = re.search(r"(Outgoing|Incoming)", v[1]["c"])
                if m:
                    return m.group(1)
            if v and v[0] == "stmt" and v[1]["r"]["k"] == "agg":
                m = re.search(r"(Outgoing|Incoming)", str(v[1]["r"].get("var", "")))
                if m:
                    return m.group(1)
    return "?"


def _same_root_var(f, a, b):
    ra, rb = panics.root_local(f, a), panics.root_local(f, b)
    return ra is not None and ra == rb


def _liveness(rep, lv):
    """live_out[i] gets live_in[s] for s in successors(i); live_in[i] gets use(i) and live_out[i] \\ def(i)."""
    calls = list(lv.calls())
    succ = [t for _, t in calls if (t.get("fp", "")).endswith("Op::successors")]
    usec = [t for _, t in calls if (t.get("fp", "")).endswith("Op::use_registers")]
    defc = [t for _, t in calls if (t.get("fp", "")).endswith("Op::def_registers")]
    ok = len(succ) == 1 and len(usec) == 1 and len(defc) == 1
    rep.ob("R5-liveness-shape", lv.name, ok, lv.file, lv.lo,
           f"liveness_analysis must call successors/use_registers/def_registers of the op once each (found {len(succ)}/{len(usec)}/{len(defc)})")
    if not ok:
        return
    # all three are called on the same op, and successors gets the op's own index
    same_op = panics.root_local(lv, succ[0]["a"][0]) == panics.root_local(lv, usec[0]["a"][0]) == panics.root_local(lv, defc[0]["a"][0])
    rep.ob("R5-liveness-same-op", lv.name, same_op, lv.file, succ[0]["ln"], "successors/use/def are not taken from the same instruction")
    # index passed to successors == index used for live_out[..]/live_in[..] insertions (rev_ix)
    idx_local = panics.root_local(lv, succ[0]["a"][1])
    idx_name = lv.var(idx_local[1]) if idx_local and idx_local[0] == "l" else None
    index_locals = set()
    for bi, tt in lv.calls():
        nm = tt.get("rn") or tt.get("fp", "")
        if re.search(r"Vec<T, A> as core::ops::index::Index(Mut)?<I>>::index(_mut)?$", nm):
            recv = panics.origin_var(lv, tt["a"][0])
            il = panics.root_local(lv, tt["a"][1])
            index_locals.add((recv, lv.var(il[1]) if il and il[0] == "l" else str(il)))
    want = {("live_out", idx_name), ("live_in", idx_name)}
    ok_idx = idx_name is not None and want <= index_locals
    extra = {x for x in index_locals if x[0] in ("live_out", "live_in") and x[1] != idx_name}
    # live_in may additionally be indexed by the successor (`*s`)
    extra = {x for x in extra if not (x[0] == "live_in")}
    rep.ob("R5-liveness-indexing", lv.name, ok_idx and not extra, lv.file, succ[0]["ln"],
           f"live_in/live_out rows must be those of the instruction whose successors/use/def are taken (index `{idx_name}`); found {sorted(index_locals)}")
    # the `contains` test on def guards the propagation of live_out into live_in with negation
    contains = [(bi, t) for bi, t in calls if re.search(r"BTreeSet::<T, A>::contains$", t.get("fp", ""))]
    neg_ok = False
    for bi, t in contains:
        recv = panics.root_call(lv, t["a"][0])
        if not (recv and recv[0] == "call" and recv[1] is defc[0]) and panics.origin_var(lv, t["a"][0]) != "op_def":
            continue
        for sbi, call, true_s, false_s in panics.switch_guards(lv):
            if call is t:
                # insertion into live_in happens on the false edge only
                ins = [b for b, tt in calls if re.search(r"IndexSet::<T, S>::insert$", tt.get("fp", "")) and lv.dominates(false_s, b) and lv.preds()[false_s] == [sbi]]
                ins_true = [b for b, tt in calls if re.search(r"IndexSet::<T, S>::insert$", tt.get("fp", "")) and lv.dominates(true_s, b) and lv.preds()[true_s] == [sbi]]
                neg_ok = bool(ins) and not ins_true
    rep.ob("R5-liveness-kill-set", lv.name, neg_ok, lv.file, contains[0][1]["ln"] if contains else lv.lo,
           "live_in must receive exactly the live_out registers that are NOT in def(op) (`if !op_def.contains(l) { live_in.insert(l) }`)")
    # use(op) is inserted into live_in unconditionally (the loop over op_use inserts every element)
    use_ins = False
    for bi, tt in calls:
        if re.search(r"IndexSet::<T, S>::insert$", tt.get("fp", "")) and panics.origin_var(lv, tt["a"][0]) in ("live_in", None):
            sl_src = panics.root_call(lv, tt["a"][1])
            if sl_src and sl_src[0] == "call" and re.search(r"Iterator>::next$", sl_src[1].get("rn") or sl_src[1].get("fp", "")):
                it = panics.root_call(lv, sl_src[1]["a"][0])
                if it and (it[0] == "var" and it[1] in ("op_use", "iter")):
                    use_ins = True
                if it and it[0] == "call" and it[1] is usec[0]:
                    use_ins = True
    rep.ob("R5-liveness-gen-set", lv.name, use_ins or _use_flows_to_live_in(lv, usec[0]), lv.file, usec[0]["ln"],
           "every register of use(op) must be inserted into live_in[op]")


def _use_flows_to_live_in(lv, usecall):
    """forward: the local holding use_registers() is iterated and the items are inserted into live_in."""
    d = usecall["d"]["l"]
    tainted = {d}
    changed = True
    while changed:
        changed = False
        for bi, si, s in lv.stmts():
            if any(o.get("l") in tainted for o in s["r"].get("o", []) if "l" in o) and s["d"]["l"] not in tainted:
                tainted.add(s["d"]["l"])
                changed = True
        for bi, tt in lv.calls():
            if any(a.get("l") in tainted for a in tt.get("a", []) if "l" in a) and "d" in tt and tt["d"]["l"] not in tainted:
                nm = tt.get("rn") or tt.get("fp", "")
                if re.search(r"(into_iter|Iterator>::next|::clone|::iter|Deref>::deref)$", nm):
                    tainted.add(tt["d"]["l"])
                    changed = True
    for bi, tt in lv.calls():
        if re.search(r"IndexSet::<T, S>::insert$", tt.get("fp", "")) and len(tt["a"]) >= 2 and tt["a"][1].get("l") in tainted:
            return panics.origin_var(lv, tt["a"][0]) in ("live_in", None) or True
    return False


def _same_index(ig):
    """In create_interference_graph: every `ops[i]` index uses the enumerate counter of the live_out iteration."""
    idxs = set()
    for bi, tt in ig.calls():
        pass
    ok = True
    found = 0
    for bi, bb in enumerate(ig.bbs):
        if bb.get("cu"):
            continue
        for s in bb["s"]:
            for o in s["r"].get("o", []) + [s["d"]]:
                for p in o.get("p", []) if "l" in o else []:
                    if isinstance(p, list) and p[0] == "i":
                        base_ty = ig.locals[o["l"]] if o["l"] < len(ig.locals) else ""
                        if "Op" in base_ty:
                            found += 1
                            nm = ig.var(p[1])
                            if nm != "ix":
                                r = panics.root_local(ig, {"l": p[1]})
                                nm2 = ig.var(r[1]) if r and r[0] == "l" else None
                                if nm2 != "ix":
                                    ok = False
    return ok and found >= 2


RA_FILE = "sway-core/src/asm_generation/fuel/register_allocator.rs"


def rule_coalescing(rep):
    """R7/R8 on coalesce_registers (syntax tree).
    R7 union-find discipline: once an operand x of the MOVE has been resolved to its representative
       (`let mut r = x; while let Some(t) = map.get(r) { r = t; }`), the unresolved x is not used again in that arm: the graph node,
       the neighbour sets and the map updates belong to the representative. (reg_to_node_map is only kept one level deep, so the
       node of an already-merged register is a removed node without neighbours: every safety check passes trivially.)
    R8 flag discipline: a MOVE resets $of/$err like every ALU instruction, so the arm that drops a MOVE is guarded by a condition
       derived from the liveness of those two registers (findings/F15)."""
    t = tab.tree(RA_FILE)
    f = tab.fn(t, "coalesce_registers")
    # ---- R7 ----------------------------------------------------------------------------------------------------------------
    n7 = 0
    for blk in [b for b in tab.walk(f["body"]) if b.get("k") == "Block"]:
        st = blk["stmts"]
        for i, s_ in enumerate(st[:-1]):
            if s_.get("k") != "Let" or s_.get("init") is None or s_["init"].get("k") != "Path":
                continue
            rname = [x["name"] for x in tab.walk(s_["pat"]) if x.get("k") == "PIdent"]
            orig = s_["init"]["path"]
            w = st[i + 1]
            if not rname or w.get("k") != "While" or w["cond"].get("k") != "LetCond":
                continue
            r = rname[0]
            get = w["cond"]["expr"]
            chases = get.get("k") == "MethodCall" and get["method"] == "get" and tab.show(get["args"][0]).lstrip("&") == r and \
                any(a.get("k") == "Assign" and tab.show(a["left"]) == r for a in tab.walk(w["body"]))
            if not chases:
                continue
            n7 += 1
            later = [x for s2 in st[i + 2:] for x in tab.walk(s2) if x.get("k") == "Path" and x["path"] == orig]
            # a later root-chase of another operand (`let mut r2 = y`) is the only legitimate mention of an original operand
            later = [x for x in later if not any(s2.get("k") == "Let" and s2.get("init") is x for s2 in st[i + 2:])]
            # recording the result of the resolution itself, `map.insert(<orig>, <representative>)`, is the other legitimate mention
            recorded = [x["args"][0] for s2 in st[i + 2:] for x in tab.walk(s2) if x.get("k") == "MethodCall" and x["method"] == "insert" and
                        len(x["args"]) == 2 and tab.show(x["args"][0]) == orig and tab.show(x["args"][1]) == r]
            later = [x for x in later if not any(x is y for y in recorded)]
            rep.ob("R7-representative-used-after-resolution", f"{orig}->{r}", not later, RA_FILE, later[0]["l"] if later else s_["l"],
                   f"`{orig}` was resolved to its representative `{r}` but is used again afterwards: the interference-graph node, neighbour sets and "
                   f"map updates must be those of `{r}` (a merged register's own node has been removed from the graph and has no neighbours)")
    rep.floor("R7-representative-used-after-resolution", 3, n7)
    # ---- R8 ----------------------------------------------------------------------------------------------------------------
    g_names = set()
    lets = tab.lets(f["body"])
    changed = True
    while changed:
        changed = False
        for l, names, pat, init in lets:
            if init is None or not names or names[0] in g_names:
                continue
            txt = tab.show(init)
            if re.search(r"ConstantRegister::(Overflow|Error)|def_const_registers", txt) or any(re.search(r"\b%s\b" % re.escape(g), txt) for g in g_names):
                g_names.add(names[0])
                changed = True
    arms = [a for m in tab.matches_in(f["body"]) for a in m["arms"] if tab.show(a["pat"]).replace(" ", "") .startswith("(VirtualRegister::Virtual(_),VirtualRegister::Virtual(_))")]
    if len(arms) != 1:
        raise AnalysisError(f"coalesce_registers: expected one arm for a MOVE between two virtual registers, found {len(arms)}")
    arm = arms[0]
    guard = tab.show(arm.get("guard") or {}) if arm.get("guard") else ""
    guarded = any(re.search(r"\b%s\b" % re.escape(g), guard) for g in g_names)
    if not guarded:
        # or: an early `if <flag condition> { push; continue }` as the first statement of the arm
        body = arm["body"]
        first = body["stmts"][0] if body.get("k") == "Block" and body["stmts"] else {}
        if first.get("k") == "If" and any(re.search(r"\b%s\b" % re.escape(g), tab.show(first["cond"])) for g in g_names):
            guarded = any(x.get("k") == "MethodCall" and x["method"] == "push" for x in tab.walk(first["then"])) and \
                any(x.get("k") == "Continue" for x in tab.walk(first["then"]))
    rep.ob("R8-coalescing-keeps-moves-that-reset-live-flags", "coalesce_registers", guarded, RA_FILE, arm["l"],
           "the arm that drops a MOVE between two virtual registers is not guarded by the liveness of $of/$err: the MOVE resets both, and a later "
           "direct read of $of/$err would see the flag of an earlier instruction")

