"""C16 Lexer and parser never crash and report in-bounds spans.

R1 PANIC cone over reach(lex, lex_commented, parse_file, parse_module_kind) in sway-parse/sway-ast/sway-types/sway-error
R2 Span encapsulation: Span's fields are private and only sway-types/src/span.rs constructs it, behind the bounds check
R3 char-boundary provenance of every offset handed to the lexer's span constructors
R4 entry preconditions: in-workspace callers of lex_commented pass (0, len) or bounds of an existing Span
"""
import re
from lib import mir, panics, sites, boundary, tab
from lib.common import AnalysisError

LEVEL = "other"
ROOTS = ["sway_parse::token::lex", "sway_parse::token::lex_commented", "sway_parse::parse_file", "sway_parse::parse_module_kind"]
CRATES = ["sway_parse", "sway_ast", "sway_types", "sway_error"]
# trait impls that generic library code can only reach when it formats / (de)serialises a value: never during parsing
NOT_DURING_PARSE = re.compile(r"^(core::fmt::|serde|serde_core::|core::hash::Hash|core::error::Error)")


def run(rep):
    F = mir.Facts(CRATES + ["sway_features", "sway_utils"])
    roots = [F.fn(r) for r in ROOTS]

    def approx_ok(cf):
        return not NOT_DURING_PARSE.search(cf.get("impl_of", "") or "")
    cone = F.cone(roots, crates=CRATES, approx_ok=approx_ok)
    # resolved (non-approximate) edges into fmt impls stay: an explicit `format!("{}", x)` in the parser is in the cone
    rep.explanation = (
        "Decides: (R1) every potentially panicking MIR construct reachable from the lexer/parser entry points is discharged by "
        "a machine-checked idiom or a reviewed, exactly keyed site; (R2) a Span can only be built by sway-types' checked "
        "constructors; (R3) every offset the lexer turns into a Span derives from char-boundary-producing sources. "
        "Termination and stack depth are not decided (recursion cycles are listed in evidence only).")
    rep.trusted = ["rustc MIR + resolution", "std / unicode-xid / num-bigint / extension-trait do not panic on the paths used",
                   "derive-generated code does not panic", "reviewed sites of spec/c16_sites.txt"]
    rep.analysed = dict(roots=ROOTS, cone_functions=len(cone), external_callees=len(F.external_callees(cone)))
    stale = sites.panic_rule(rep, F, cone, "R1-panic-free-cone", "spec/c16_sites.txt")
    rep.floor("R1-panic-free-cone", 40)
    for r in roots:
        rep.ob("R0-roots-present", r.name, True, r.file, r.lo, "")
    # the parser entry must reach the lexer and the module parser (fail closed on a cone that lost its body)
    for must in ("sway_parse::token::lex_commented", "sway_parse::parser::Parser::<'a, 'e>::parse_to_end",
                 "sway_types::span::Span::new"):
        fn = F.fn(must)
        rep.ob("R0-cone-covers", must, fn.id in cone, fn.file, fn.lo, "expected function not reachable from the entry points: cone incomplete")

    # ---- R2 Span encapsulation ------------------------------------------------------------------------------
    t = tab.tree("sway-types/src/span.rs")
    st = tab.struct(t, "Span")
    pubs = [f["name"] for f in st["fields"] if f.get("vis") not in (None, "", "inherited")]
    rep.ob("R2-span-fields-private", "sway_types::span::Span", not pubs, "sway-types/src/span.rs", st.get("line", 0),
           f"Span fields {pubs} are not private: any crate can build an out-of-bounds span")
    n = 0
    allowed = {"sway_types::span::Span::new": "checked", "sway_types::span::Span::dummy": "empty source",
               "sway_types::span::Span::from_string": "whole string", "sway_types::span::Span::empty_at_start": "derived",
               "sway_types::span::Span::empty_at_end": "derived", "sway_types::span::Span::trim": "derived",
               "sway_types::span::Span::next_char_utf8": "derived", "sway_types::span::Span::join": "derived",
               "sway_types::span::Span::subset_first_of": "derived", "sway_types::span::Span::new_from_idx": "derived"}
    G = mir.Facts()
    for f in G.fns.values():
        if f.exp:
            continue
        for bi, si, s in f.stmts():
            if s["r"]["k"] == "agg" and s["r"].get("adt") == "sway_types::span::Span":
                n += 1
                base = f.name.split("::{closure")[0]
                ok = f.file == "sway-types/src/span.rs"
                rep.ob("R2-span-constructed-only-in-span.rs", f"{base}", ok, f.file, s.get("ln", f.lo),
                       "a Span is built outside sway-types/src/span.rs (bypasses the bounds/char-boundary check of Span::new)")
    rep.floor("R2-span-constructed-only-in-span.rs", 3, n)
    new = G.fn("sway_types::span::Span::new")
    # Span::new: the aggregate is dominated by the success edge of `text.get(start..end)?`
    aggs = [(bi, s) for bi, si, s in new.stmts() if s["r"]["k"] == "agg" and s["r"].get("adt") == "sway_types::span::Span"]
    gets = [(bi, tt) for bi, tt in new.calls() if re.search(r"core::str::<impl str>::get$", tt.get("fp", ""))]
    ok = False
    for gbi, gt in gets:
        for bi, tt in new.calls():
            if (tt.get("rn", "") or tt.get("fp", "")).endswith("Try>::branch") and tt["a"][0].get("l") == gt["d"]["l"]:
                sw = new.bbs[tt["t"]]["t"]
                if sw["k"] == "switch":
                    cont = [b for v, b in sw["ts"] if v == "0"]
                    if cont and all(new.dominates(cont[0], abi) for abi, _ in aggs) and aggs:
                        # the range passed to get() is (start..end) of the parameters that become the fields
                        ok = True
    rep.ob("R2-span-new-checks-bounds", new.name, ok, new.file, new.lo,
           "Span::new must return None unless src.text.get(start..end) succeeds (in bounds and on char boundaries)")

    # ---- R3 char-boundary provenance ---------------------------------------------------------------------------
    ck = boundary.Checker(F, reviewed=sites.load_sites("spec/c16_offsets.txt"))
    n3 = 0
    for f in F.fns.values():
        if f.crate != "sway_parse":
            continue
        cnt = {}
        for bi, tt in f.calls():
            cid = mir.callee_id(tt)
            cf = F.fns.get(cid)
            if cf is None or cf.name not in boundary.SPAN_FNS:
                continue
            for ai in boundary.SPAN_FNS[cf.name]:
                n3 += 1
                base = f.name
                cnt[(cf.name, ai)] = cnt.get((cf.name, ai), 0) + 1
                key = f"{base}|{cf.name.split('::')[-1]}.arg{ai}#{cnt[(cf.name, ai)]}"
                probs = ck.check_operand(f, tt["a"][ai])
                rep.ob("R3-offset-is-char-boundary", key, not probs, f.file, tt["ln"],
                       "; ".join(sorted(set(probs)))[:600] + " — Span::new(..).unwrap() in token::span panics on an offset that is not a char boundary")
    rep.floor("R3-offset-is-char-boundary", 30, n3)
    # ---- R3b / R3c: an end offset is start + the width of the text that starts there ----------------------------------------
    # (added after F19/F20 and seed C16b showed that "every leaf of the offset expression is boundary-ish" accepts `p + <width of
    # some other character>`, `p + <length of some other string>` and `p + 1` next to a multi-byte character)
    from lib import boundary2
    R = boundary2.Resolver(F)
    reviewed = sites.load_sites("spec/c16_offsets.txt")
    used = set()
    n3b = n3c = 0
    for f in sorted(F.fns.values(), key=lambda x: x.name):
        if f.crate != "sway_parse" or not f.file.endswith("sway-parse/src/token.rs"):
            continue
        if f.d.get("exp"):
            continue
        k_one = k_add = 0
        for bi, tt in f.calls():
            if (tt.get("fp", "")) == "sway_parse::token::span_one":
                k_one += 1
                key = f"{f.name}|span_one#{k_one}"
                ok, why = boundary2.paired(R, f, tt["a"][1], tt["a"][2])
                if ok:
                    n3b += 1
                    rep.ob("R3b-width-belongs-to-the-character-at-the-start", key, True, f.file, tt["ln"], "")
                elif key in reviewed:
                    used.add(key)
                    n3c += 1
                    rep.ob("R3c-reviewed-offset-arithmetic", key, True, f.file, tt["ln"], "reviewed: " + reviewed[key])
                else:
                    rep.ob("R3b-width-belongs-to-the-character-at-the-start", key, False, f.file, tt["ln"],
                           f"span_one(l, p, c) spans `p .. p + c.len_utf8()`: p and c must be the position and the character of the same stream item, but {why}; "
                           "if c is wider or narrower than the character at p the end is not a char boundary (or lies past the end) and Span::new(..).unwrap() panics")
        for bi, si, st in f.stmts():
            r = st["r"]
            if not (r["k"] == "bin" and r["op"].startswith("Add") and r.get("ty") == "usize"):
                continue
            k_add += 1
            key = f"{f.name}|add#{k_add}"
            ops = r["o"]
            lens = []
            for i_, o in enumerate(ops):
                for a in R.resolve(f, o):
                    if a[0] == "call" and isinstance(a[4], dict) and (a[4].get("fp", "")).endswith("len_utf8") and not a[3]:
                        lens.append((i_, a[4]))
            if lens:
                i_, call = lens[0]
                ok, why = boundary2.paired(R, f, ops[1 - i_], call["a"][0])
                if ok:
                    n3b += 1
                    rep.ob("R3b-width-belongs-to-the-character-at-the-start", key, True, f.file, st.get("ln", f.lo), "")
                    continue
            else:
                why = "the addend is not the width of a stream character"
            if key in reviewed:
                used.add(key)
                n3c += 1
                rep.ob("R3c-reviewed-offset-arithmetic", key, True, f.file, st.get("ln", f.lo), "reviewed: " + reviewed[key])
            else:
                rep.ob("R3c-reviewed-offset-arithmetic", key, False, f.file, st.get("ln", f.lo),
                       f"offset arithmetic `a + b` in the lexer where b is not the width of the character at a ({why}): adding a constant, the length of another string or "
                       "the width of another character is a char boundary only if the text at `a` is known to have exactly that width; not in spec/c16_offsets.txt")
    stale = sorted(set(reviewed) - used)
    rep.ob("R3c-reviewed-table-is-current", "spec/c16_offsets.txt", not stale, "spec/c16_offsets.txt", 0, f"reviewed entries that match no site any more: {stale}")
    rep.floor("R3b-width-belongs-to-the-character-at-the-start", 9, n3b)

    # ---- R4 callers of lex_commented ------------------------------------------------------------------------------
    lc = G.fn("sway_parse::token::lex_commented")
    n4 = 0
    for f in G.fns.values():
        for bi, tt in f.calls():
            if mir.callee_id(tt) != lc.id:
                continue
            n4 += 1
            for ai, what in ((2, "start"), (3, "end")):
                o = tt["a"][ai]
                r = panics.root_call(f, o)
                good = False
                if r and r[0] == "const":
                    good = re.match(r"^(const )?0_usize$", r[1].strip()) is not None
                elif r and r[0] == "call":
                    nm = r[1].get("rn") or r[1].get("fp", "")
                    good = bool(re.search(r"(core::str::<impl str>::len|alloc::string::String::len|sway_types::span::Span::(start|end))$", nm))
                elif r and r[0] == "var":
                    # forwarded parameter of a wrapper whose own callers are checked (lex -> lex_commented)
                    good = f.name == "sway_parse::token::lex"
                    if not good and f.kind == "closure":
                        # a captured variable: resolve it in the enclosing function
                        from lib import slices
                        sl = slices.backward_slice(f, o)
                        caps = [l[1] for l in sl["leaves"] if l[0] == "capture"]
                        parent = G.fns.get(f.parent)
                        if parent and len(caps) == 1 and len(sl["leaves"]) == 1:
                            locs = [int(l) for l, v in parent.vars.items() if v == caps[0]]
                            rs = [panics.root_call(parent, {"l": l}) for l in locs]
                            good = bool(rs) and all(
                                x and ((x[0] == "call" and re.search(r"(core::str::<impl str>::len|alloc::string::String::len|sway_types::span::Span::(start|end))$",
                                                                      x[1].get("rn") or x[1].get("fp", "")))
                                       or (x[0] == "const" and re.match(r"^(const )?0_usize$", x[1].strip()))) for x in rs)
                            r = ("captured " + caps[0], rs)
                rep.ob("R4-lex-range-is-valid", f"{f.name}|{what}", good, f.file, tt["ln"],
                       f"lex_commented is called with a {what} offset that is neither 0, a text length nor a Span bound "
                       f"(found {r and r[0]}: {str(r and r[1])[:80]}): `&src.text[..end]` / `src[position..]` panic off a char boundary")
    rep.floor("R4-lex-range-is-valid", 4, n4 * 2)
    rule_consumed_attribute_kept(rep, F)


def rule_consumed_attribute_kept(rep, F):
    """R6: premise of the reviewed `expect` sites in Annotated::parse (spec/c16_sites.txt): "an empty parser after parsing attributes
    means at least one attribute was consumed" only implies a non-empty list if every declaration the attribute-list parser consumes is
    pushed. Must-pass-through: from the success edge of each consuming call, every path to the next loop iteration or to the Ok return
    goes through Vec::push."""
    import re
    fs = [f for f in F.fns.values() if f.crate == "sway_parse" and re.search(r"Parse for alloc::vec::Vec<sway_ast::attribute::AttributeDecl>>::parse$", f.name)]
    if len(fs) != 1:
        raise AnalysisError(f"C16 R6: attribute-list parser not found ({[f.name for f in fs]})")
    f = fs[0]
    defs = mir.defs_of(f)
    push = {bi for bi, t in f.calls() if re.search(r"Vec::<T, A>::push$|Vec::<T>::push$", t.get("fp", ""))}
    errs = {bi for bi, t in f.calls() if re.search(r"FromResidual<.*>>::from_residual$", t.get("fp", "") + (t.get("rn") or ""))}
    consuming = [(bi, t) for bi, t in f.calls() if re.search(r"Parser::<'a, 'e>::(parse|guarded_parse|parse_to_end|try_parse|take)$", t.get("fp", ""))]
    peeks = [bi for bi, t in f.calls() if re.search(r"Parser::<'a, 'e>::peek", t.get("fp", ""))]
    if not consuming or not peeks:
        raise AnalysisError("C16 R6: no consuming call / loop header found in the attribute-list parser")
    header = min(peeks)
    rets = {bi for bi, bb in enumerate(f.bbs) if bb["t"]["k"] == "ret"}
    n = 0
    for bi, t in consuming:
        # success edge: Try::branch Continue target, then (for Option results) the Some target
        starts = []
        cur = t.get("t")
        seen = 0
        while cur is not None and seen < 6:
            seen += 1
            tt = f.term(cur)
            if tt["k"] == "call" and re.search(r"Try>::branch$|Try::branch$", tt.get("fp", "") + (tt.get("rn") or "")):
                cur = tt.get("t")
                continue
            if tt["k"] == "switch":
                ts = dict((a, b) for a, b in tt["ts"])
                # Result-like branch: "0" = Continue; Option: "1" = Some
                dl = tt["o"][0].get("l")
                dd = defs.get(dl, [])
                src = dd[0][3][0] if dd and dd[0][2] == "disc" else {}
                sdefs = defs.get(src.get("l"), [])
                is_branch = bool(sdefs and sdefs[0][2] == "call" and re.search(r"Try>::branch$|Try::branch$", sdefs[0][4].get("fp", "") + (sdefs[0][4].get("rn") or "")))
                if is_branch and "0" in ts:
                    cur = ts["0"]
                    if re.search(r"guarded_parse$|try_parse$", t.get("fp", "")):
                        continue  # the Option inside is switched on next
                    starts.append(cur)
                    break
                if "1" in ts and re.search(r"guarded_parse$|try_parse$", t.get("fp", "")):
                    starts.append(ts["1"])
                    break
                raise AnalysisError(f"C16 R6: unrecognised branch after {t.get('fp')} at line {t.get('ln')}")
            if tt["k"] == "goto":
                cur = tt.get("t")
                continue
            break
        if not starts:
            raise AnalysisError(f"C16 R6: success edge of {t.get('fp')} at line {t.get('ln')} not found")
        for st in starts:
            n += 1
            reach = f.reachable(st, avoid=push | errs) if st not in push else set()
            bad = (reach & rets) | ({header} & reach)
            rep.ob("R6-consumed-attribute-is-kept", f"{f.name}|{t.get('fp', '').split('::')[-1]}#{n}", not bad, f.file, t["ln"],
                   "a declaration consumed by this call can reach the next loop iteration / the Ok return without being pushed: the list can then be "
                   "empty although input was consumed, and Annotated::parse's `first().expect(..)` / `last().expect(..)` (reviewed sites) panic")
    rep.floor("R6-consumed-attribute-is-kept", 2, n)
