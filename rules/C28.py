"""C28 Persistent storage collections behave like their models -- slot-derivation agreement only.

The statement quantifies over operation histories; what is visible in the shape of the std storage sources is *where* each
operation reads and writes. For every method of StorageVec / StorageMap / StorageBytes / StorageString in the default build
(`#[cfg(experimental_dynamic_storage = false)]` or no cfg) the rules decide:

S1 never `self.slot()`: a collection addresses storage only through `self.field_id()` (these are zero-sized storage types that can
   be nested; `self.slot` is the slot of the parent). Checked for both cfg variants.
S2 writer/reader agreement on addresses: every storage primitive in a method takes its slot from one of the collection's two
   derivations -- the length/header at `self.field_id()`, the content at `sha256(self.field_id())` -- directly or through a `let`;
   element-typed accesses (`::<V>`) use the content derivation with an offset from `offset_calculator::<V>(..)`, `u64` length
   accesses use `self.field_id()` at offset 0. All methods therefore agree, and content of different fields is separated by the hash.
S3 StorageMap: every access takes its slot from the single key-derivation helper, which hashes (map domain, key, field id);
   `get` hands out a StorageKey at that slot with offset 0
S4 element handles: `StorageKey::<V>::new(<content slot>, <element offset>, sha256((<index>, <content slot>)))`: the field id given to
   a nested element depends on its index and the vector's own content slot
The order of shifts in insert/remove, lengths, and the behaviour of the primitives themselves are not decided.
"""
import re
from lib import sw
from lib.common import AnalysisError

LEVEL = "other"
DIR = "sway-lib-std/src/storage/"
PRIM = re.compile(r"^(read_quads|write_quads|clear_quads|read_slot|write_slot|clear_slots\w*|read_slice_\w+|write_slice_\w+|clear_slice_\w+|__state_(load|store|clear)\w*)$")


def split_args(toks):
    out, cur, d = [], [], 0
    for x in toks:
        if x in "({[":
            d += 1
        elif x in ")}]":
            d -= 1
        if x == "," and d == 0:
            out.append("".join(cur))
            cur = []
        else:
            cur.append(x)
    if cur:
        out.append("".join(cur))
    return out


def cfg_of(toks, impl_start):
    """value of a `#[cfg(experimental_dynamic_storage = X)]` attribute directly preceding the impl keyword, or None"""
    i = impl_start - 1
    # attributes end with `]`
    seen = []
    while i > 0 and toks[i][1] == "]":
        j = i
        depth = 0
        while j >= 0:
            if toks[j][1] == "]":
                depth += 1
            elif toks[j][1] == "[":
                depth -= 1
                if depth == 0:
                    break
            j -= 1
        seen.append("".join(t[1] for t in toks[j:i + 1]))
        i = j - 2  # skip `#`
    for a in seen:
        m = re.search(r"cfg\(experimental_dynamic_storage=(true|false)\)", a)
        if m:
            return m.group(1)
    return None


def analyse_fn(toks, bs, be):
    """(sites, lets, uses_slot): sites = [(line, primitive, turbofish, [args resolved through lets])]"""
    body = [t[1] for t in toks[bs:be + 1]]
    W = [(None, x, 0) for x in body]
    lets = {}
    sites = []
    k = 0
    uses_slot = []
    while k < len(body):
        if body[k] == "self" and body[k + 1:k + 5] == [".", "slot", "(", ")"]:
            uses_slot.append(toks[bs + k][2])
        if body[k] == "let":
            kk = k + 1
            if body[kk] == "mut":
                kk += 1
            if re.fullmatch(r"\w+", body[kk]) and body[kk + 1] in ("=", ":"):
                m = kk + 1
                while body[m] != "=":
                    m += 1
                d, ex, m = 0, [], m + 1
                while not (body[m] == ";" and d == 0):
                    if body[m] in "({[":
                        d += 1
                    elif body[m] in ")}]":
                        d -= 1
                    ex.append(body[m])
                    m += 1
                lets.setdefault(body[kk], []).append((k, "".join(ex)))
        is_prim = PRIM.match(body[k]) is not None
        is_new = body[k] == "StorageKey" and "new" in body[k:k + 8] and body[k + 1] == "::"
        if (is_prim or is_new) and k + 1 < len(body):
            m = k + 1
            tf = ""
            while body[m] == "::":
                m += 1
                if body[m] == "<":
                    e = sw.match_brace(W, m, "<", ">")
                    tf = "".join(body[m:e + 1])
                    m = e + 1
                elif body[m] == "new":
                    m += 1
            if m < len(body) and body[m] == "(":
                c = sw.match_brace(W, m, "(", ")")
                args = split_args(body[m + 1:c])
                res = []
                for a in args:
                    r = a
                    for _ in range(3):
                        if re.fullmatch(r"\w+", r) and r in lets:
                            cand = [e_ for p_, e_ in lets[r] if p_ < k]
                            if cand:
                                r = cand[-1]
                                continue
                        break
                    res.append(r)
                sites.append((toks[bs + k][2], "StorageKey::new" if is_new else body[k], tf, args, res))
        k += 1
    return sites, lets, uses_slot


LEN = "self.field_id()"
CONTENT = "sha256(self.field_id())"


def run(rep):
    rep.explanation = (
        "Decides the slot-derivation agreement of the std storage collections in the default build: no method addresses storage through the parent's "
        "slot, every primitive takes its slot from the collection's own two derivations (header at field_id, content at sha256(field_id)) with "
        "element offsets from offset_calculator, StorageMap from its single hashing helper over (domain, key, field_id), and element handles carry a "
        "field id that depends on index and content slot. Readers and writers of one collection therefore agree on addresses and different fields "
        "are separated by the hash. Operation histories (shifts, lengths, the primitives) are not decided.")
    rep.trusted = ["rules/lib/sw.py tokenizer", "sha256 collision resistance", "read_quads / write_quads / *_slice_* primitives (storage_api.sw, storable_slice.sw)"]
    n_fns = 0
    for rel, coll in (("storage_vec.sw", "StorageVec"), ("storage_map.sw", "StorageMap"), ("storage_bytes.sw", "StorageBytes"), ("storage_string.sw", "StorageString")):
        toks = sw.load(DIR + rel)
        ims = sw.impls(toks)
        n_sites = 0
        for tr, ty, s, e, line in ims:
            if coll not in ty:
                continue
            # the impl keyword index: search backwards from s for `impl`
            i = s
            while toks[i][1] != "impl":
                i -= 1
            cfg = cfg_of(toks, i)
            fs = sw.fns(toks, s, e)
            for name, (bs, be, fl) in fs.items():
                n_fns += 1
                sites, lets, uses_slot = analyse_fn(toks, bs, be)
                rep.ob("S1-never-the-parent-slot", f"{coll}[{cfg or 'any'}]::{name}", not uses_slot, DIR + rel, uses_slot[0] if uses_slot else fl,
                       f"{coll}::{name} uses `self.slot()`: a nested {coll} would then read and write its parent's slot instead of its own field id")
                if cfg == "true":
                    continue  # the dynamic-storage variant is not the default build: only S1
                for ln, prim, tf, raw, res in sites:
                    n_sites += 1
                    key = f"{coll}::{name}|{prim}{tf}#{sum(1 for o in rep.obls if o['key'].startswith(f'{coll}::{name}|{prim}{tf}#')) + 1}"
                    a0 = res[0] if res else ""
                    if coll == "StorageMap":
                        if prim == "StorageKey::new":
                            ok = len(res) == 3 and a0 == "self.get_slot_key(key)" and res[1] == "0" and res[2] == a0
                            rep.ob("S3-map-slot-from-the-key-helper", key, ok, DIR + rel, ln, f"StorageMap::get must hand out StorageKey::new(slot_key, 0, slot_key); found {res}")
                        else:
                            rep.ob("S3-map-slot-from-the-key-helper", key, a0 == "self.get_slot_key(key)", DIR + rel, ln,
                                   f"every StorageMap access must take its slot from get_slot_key(key); {prim} uses `{a0}`")
                        continue
                    if coll in ("StorageBytes", "StorageString"):
                        rep.ob("S2-address-from-own-derivation", key, a0 == LEN, DIR + rel, ln, f"{coll}::{name}: {prim} must address `self.field_id()`; found `{a0}`")
                        continue
                    # StorageVec
                    if prim == "StorageKey::new":
                        ok = len(res) == 3 and res[0] in (CONTENT, "sha256(self.values.field_id())") and re.fullmatch(r"sha256\(\((.+),key\)\)", raw[2]) is not None and \
                            (res[1] == "0" or res[1].startswith("offset_calculator::<V>("))
                        idx = re.fullmatch(r"sha256\(\((.+),key\)\)", raw[2])
                        off = re.fullmatch(r"offset_calculator::<V>\((.+)\)", res[1])
                        same_index = bool(idx) and ((off and off.group(1) == idx.group(1)) or (res[1] == "0" and idx.group(1) == "0"))
                        rep.ob("S4-element-handle", key, ok and same_index, DIR + rel, ln,
                               f"an element handle must be StorageKey::new(content slot, offset of index i, sha256((i, content slot))); found {raw} -> {res}")
                        continue
                    if a0 == LEN:
                        ok = (tf in ("", "<u64>")) and (len(res) < 2 or res[1] == "0") and not re.search(r"<V>", tf)
                        rep.ob("S2-address-from-own-derivation", key, ok, DIR + rel, ln,
                               f"{coll}::{name}: the header slot `self.field_id()` holds the length: only u64 accesses at offset 0; found {prim}{tf}({', '.join(res)})")
                    elif a0 == CONTENT:
                        ok = True
                        if prim in ("read_quads", "write_quads", "clear_quads") and len(res) >= 2:
                            ok = res[1].startswith("offset_calculator::<V>(")
                        rep.ob("S2-address-from-own-derivation", key, ok, DIR + rel, ln,
                               f"{coll}::{name}: element accesses in the content slot need an offset from offset_calculator::<V>; found {prim}{tf}({', '.join(res)})")
                    else:
                        rep.ob("S2-address-from-own-derivation", key, False, DIR + rel, ln,
                               f"{coll}::{name}: {prim}{tf} addresses `{a0}`, which is neither the header `self.field_id()` nor the content `sha256(self.field_id())`")
        if coll == "StorageMap":
            # the helper itself
            allf = {}
            for tr, ty, s, e, line in ims:
                allf.update({k_: v_ for k_, v_ in sw.fns(toks, s, e).items()})
            if "get_slot_key" not in allf:
                raise AnalysisError("storage_map.sw: fn get_slot_key not found")
            bs, be, fl = allf["get_slot_key"]
            body = "".join(sw.texts(toks, bs + 1, be - 1))
            rep.ob("S3-map-key-derivation", "get_slot_key", body == "sha256((STORAGE_MAP_DOMAIN,key,self.field_id()))", DIR + rel, fl,
                   f"the slot of a map entry must be sha256((STORAGE_MAP_DOMAIN, key, self.field_id())); found `{body}`")
        rep.note(f"{rel}: {n_sites} storage access sites analysed in the default build")
    # ---- S5: the slice primitives agree on header/content and write the header on every path ---------------------------------
    rel = "storable_slice.sw"
    toks = sw.load(DIR + rel)
    T = [t[1] for t in toks]
    fs = {}
    i = 0
    while i < len(T) - 1:
        if T[i] == "fn" and toks[i][0] == "id" and toks[i + 1][0] == "id":
            j = i + 2
            while j < len(T) and T[j] not in ("{", ";"):
                if T[j] == "(":
                    j = sw.match_brace(toks, j, "(", ")")
                j += 1
            if j < len(T) and T[j] == "{":
                fs[T[i + 1]] = (j, sw.match_brace(toks, j), toks[i][2])
        i += 1
    for wname in ("write_slice_quads",):
        if wname not in fs:
            raise AnalysisError(f"storable_slice.sw: fn {wname} not found")
        bs, be, fl = fs[wname]
        body = T[bs:be + 1]
        txt = "".join(body)
        # header: write_quads::<u64>(slot, 0, <len>) ; content at sha256(slot)
        hdr = [k for k in range(len(body) - 6) if body[k] == "write_quads" and "".join(body[k:k + 12]).startswith("write_quads::<u64>(slot,0,")]
        cont = "__state_store_quad(sha256(slot)," in txt
        rets = [k for k in range(len(body)) if body[k] == "return"]
        early = [toks[bs + k][2] for k in rets if not hdr or k < hdr[0]]
        rep.ob("S5-slice-write-sets-the-length-on-every-path", wname, bool(hdr) and cont and not early, DIR + rel, early[0] if early else fl,
               f"{wname} must store the content at sha256(slot) and the length at `slot` on every path; " +
               ("it returns before the length is written: overwriting a stored value with an empty one would leave the old length and content in place" if early
                else "the header / content writes were not found in their expected form"))
    rd = fs.get("read_slice_quads")
    if rd is None:
        raise AnalysisError("storable_slice.sw: fn read_slice_quads not found")
    rtxt = "".join(T[rd[0]:rd[1] + 1])
    rep.ob("S5-slice-reader-agrees-with-writer", "read_slice_quads", "read_quads::<u64>(slot,0)" in rtxt and "__state_load_quad(sha256(slot)," in rtxt, DIR + rel, rd[2],
           "read_slice_quads must read the length from `slot` (offset 0) and the content from sha256(slot), where write_slice_quads puts them")
    cl = fs.get("clear_slice_quads")
    if cl is not None:
        ctxt = "".join(T[cl[0]:cl[1] + 1])
        rep.ob("S5-slice-reader-agrees-with-writer", "clear_slice_quads", "__state_clear(slot,1)" in ctxt and "__state_clear(sha256(slot)," in ctxt, DIR + rel, cl[2],
               "clear_slice_quads must clear the length slot and the content slots at sha256(slot)")
    rep.floor("S1-never-the-parent-slot", 60, n_fns)
    rep.floor("S2-address-from-own-derivation", 50)
    rep.floor("S3-map-slot-from-the-key-helper", 4)
    rep.floor("S4-element-handle", 3)
