"""C01 Compiled scripts compute what the semantics prescribe — three structural clauses.

R1 operator lowering: each IR BinaryOpKind / Predicate / UnaryOpKind is lowered to the opcode of spec/ops_lowering.txt with
   operands in (dest, lhs, rhs) order
R2 opcode identity through the layers: an allocated instruction X(a, b, c) is encoded as fuel_asm op X with the operands in
   the same order; the asm-block mnemonic "x" builds VirtualOp::X with the parsed operands in order
R3 narrow-integer range checks (std ops.sw): for u8/u16/u32 and Add/Subtract/Multiply the result is computed in u64 with
   the trait's intrinsic, compared against the type's maximum with __gt, and the overflow branch reverts when
   panic_on_overflow_enabled(); the three widths are siblings (same token shape); lsh masks with Self::max()
"""
import os, re
from lib import tab, isa, sw
from lib.common import VERIF, AnalysisError

LEVEL = "other"
FAB = "sway-core/src/asm_generation/fuel/fuel_asm_builder.rs"
AOPS = "sway-core/src/asm_lang/allocated_ops.rs"
MOD = "sway-core/src/asm_lang/mod.rs"
OPS = "sway-lib-std/src/ops.sw"


def load_spec():
    out = {}
    for ln in open(os.path.join(VERIF, "spec/ops_lowering.txt")):
        if ln.startswith("#") or not ln.strip():
            continue
        k, v = ln.split()
        out[k] = v
    return out


def ctor_of(arm_body, enum="VirtualOp"):
    """(variant, [arg names]) of the single `Enum::Variant(args..)` construction in an arm body."""
    found = []
    for n in tab.walk(arm_body):
        if n.get("k") == "Call" and n["func"].get("k") == "Path":
            segs = n["func"]["path"].split("::")
            if len(segs) >= 2 and segs[-2] == enum:
                args = []
                for a in n.get("args", []):
                    nm = None
                    x = a
                    while x.get("k") in ("MethodCall", "Ref", "Paren", "Unary") and (x.get("recv") or x.get("expr")):
                        x = x.get("recv") or x.get("expr")
                    if x.get("k") == "Path":
                        nm = x["path"]
                    args.append(nm)
                found.append((segs[-1], args))
    if not found:
        for n in tab.walk(arm_body):
            if n.get("k") == "Path":
                segs = n["path"].split("::")
                if len(segs) >= 2 and segs[-2] == enum:
                    found.append((segs[-1], []))
    return found


def run(rep):
    spec = load_spec()
    rep.explanation = (
        "Decides three table-shaped clauses of code generation: every arithmetic / comparison operator is lowered to the right "
        "opcode with the right operand order; an instruction keeps its identity and operand order from the allocated form to the "
        "encoded fuel_asm form and from asm-block text to the virtual form; the std operator impls of u8/u16/u32 range-check and "
        "revert on overflow; and (R4-R7) every constant-folding table -- asm-level propagation, IR-level folding and identities, compile-time "
        "intrinsic evaluation -- uses the evaluator that yields no constant exactly where the VM reverts, and only identities that hold for every "
        "value of the unknown operand, reverts included. It does not decide code generation as a whole.")
    rep.trusted = ["syn", "the Sway tokenizer of rules/lib/sw.py", "FuelVM opcode semantics", "spec/ops_lowering.txt"]
    t = tab.tree(FAB)
    # ---- R1 ------------------------------------------------------------------------------------------------------------------
    for fname, enum, order in (("compile_binary_op", "BinaryOpKind", ["res_reg", "val1_reg", "val2_reg"]),
                               ("compile_cmp", "Predicate", ["res_reg", "lhs_reg", "rhs_reg"]),
                               ("compile_unary_op", "UnaryOpKind", ["res_reg", "val_reg"])):
        f = tab.fn(t, fname)
        ms = [m for m in tab.matches_in(f["body"]) if any(v.startswith(enum + "::") for a in m["arms"] for v, _ in tab.pat_variants(a["pat"]))]
        if len(ms) != 1:
            raise AnalysisError(f"{fname}: expected one match over {enum}, found {len(ms)}")
        m = ms[0]
        rep.ob("R1-no-catch-all", fname, tab.has_wildcard_arm(m) is None, FAB, m.get("l", 0), f"{fname} has a catch-all arm over {enum}")
        seen = set()
        for a in m["arms"]:
            for v, _ in tab.pat_variants(a["pat"]):
                key = f"{enum}::{tab.last_seg(v)}"
                seen.add(key)
                want = spec.get(key)
                cs = ctor_of(a["body"])
                ok = want is not None and len(cs) == 1 and cs[0][0] == want and cs[0][1] == order
                rep.ob("R1-operator-lowering", key, ok, FAB, a.get("l", 0),
                       f"{key} must be lowered to VirtualOp::{want}({', '.join(order)}); found {cs}: the script computes a different function "
                       "(or the operands swapped) for every use of this operator")
        missing = {k for k in spec if k.startswith(enum + "::")} - seen
        rep.ob("R1-operators-covered", fname, not missing, FAB, f.get("l", 0), f"{fname} does not lower {sorted(missing)}")
    rep.floor("R1-operator-lowering", 14)

    # ---- R2 ------------------------------------------------------------------------------------------------------------------
    at = tab.tree(AOPS)
    avs = isa.variants(at, "AllocatedInstruction", "AllocatedRegister")
    f = tab.fn(at, "to_fuel_asm")
    rows, wild, m = isa.match_table(f, avs)
    rep.ob("R2-no-catch-all", "to_fuel_asm", not wild, AOPS, f.get("l", 0), "to_fuel_asm has a catch-all arm")
    PSEUDO = {"BLOB", "DataSectionOffsetPlaceholder", "ConfigurablesOffsetPlaceholder", "LoadDataId", "AddrDataId", "Undefined"}
    n2 = 0
    for v, rs in rows.items():
        if v in PSEUDO:
            continue
        unguarded = [x for x in rs if not x["arm"].get("guard")]
        r = (unguarded or rs)[0]
        # a guarded arm may only drop the instruction for a zero immediate (`cfei 0` / `cfsi 0` do nothing)
        for x in rs:
            g = x["arm"].get("guard")
            if g:
                zero = g.get("k") == "Binary" and g.get("op") == "==" and str(g["right"].get("v")) == "0"
                rep.ob("R2-guarded-arm-only-drops-zero-immediate", v, zero and v in ("CFEI", "CFSI"), AOPS, x["line"],
                       f"to_fuel_asm has a guarded arm for {v} that is not `imm == 0 => no instruction`")
        news = []
        for n in tab.walk(r["arm"]["body"]):
            if n.get("k") == "Call" and n["func"].get("k") == "Path":
                segs = n["func"]["path"].split("::")
                if len(segs) >= 3 and segs[-3] == "op" and segs[-1] == "new":
                    args = []
                    for a in n.get("args", []):
                        x = a
                        while x.get("k") in ("MethodCall", "Ref", "Paren", "Unary", "Try") and (x.get("recv") or x.get("expr")):
                            x = x.get("recv") or x.get("expr")
                        args.append(x.get("path") if x.get("k") == "Path" else None)
                    news.append((segs[-2], args))
        n2 += 1
        binders = [b for b in r["binders"]]
        ok = len(news) == 1 and news[0][0] == v and news[0][1] == binders
        rep.ob("R2-encoded-opcode-and-operand-order", v, ok, AOPS, r["line"],
               f"AllocatedInstruction::{v}({', '.join(str(b) for b in binders)}) must be encoded as op::{v}::new with the operands in the same "
               f"order; found {news}")
    rep.floor("R2-encoded-opcode-and-operand-order", 95, n2)
    # asm-block mnemonics
    mt = tab.tree(MOD)
    po = tab.fn(mt, "parse_opcode")
    pm = [mm for mm in tab.matches_in(po["body"]) if sum(1 for a in mm["arms"] if a["pat"].get("k") == "PLit") > 50]
    if len(pm) != 1:
        raise AnalysisError("parse_opcode: mnemonic match not found")
    vt = tab.tree(isa.VOPS)
    vvs = isa.variants(vt)
    n_mn = 0
    for a in pm[0]["arms"]:
        p = a["pat"]
        if p.get("k") != "PLit":
            continue
        mn = p["lit"].get("v")
        cs = ctor_of(a["body"])
        n_mn += 1
        ok = len(cs) == 1 and cs[0][0].lower() == mn.lower() and cs[0][0] in vvs
        # operands in binding order: the tuple pattern of the `let (r1, r2, ..) = ..` statement
        order_ok = True
        lets = [n for n in tab.walk(a["body"]) if n.get("k") == "Let" and n["pat"].get("k") == "PTuple"]
        if ok and lets:
            names = [e.get("name") for e in lets[0]["pat"]["elems"]]
            regs = [x for x in cs[0][1] if x in names]
            order_ok = regs == [x for x in names if x in regs] and len(set(regs)) == len(regs)
        rep.ob("R2-mnemonic-builds-same-opcode", mn, ok and order_ok, MOD, a.get("l", 0),
               f'asm mnemonic "{mn}" must build VirtualOp::{mn.upper()} with the parsed operands in order; found {cs}')
    rep.floor("R2-mnemonic-builds-same-opcode", 90, n_mn)

    # ---- R3 ------------------------------------------------------------------------------------------------------------------
    toks = sw.load(OPS)
    ims = {(tr, ty): (s, e, l) for tr, ty, s, e, l in sw.impls(toks)}
    intrinsic = {"Add": ("add", "__add"), "Subtract": ("subtract", "__sub"), "Multiply": ("multiply", "__mul")}
    maxname = {"u8": ("max_u8_u64",), "u16": ("MAX_U16_U64",), "u32": ("MAX_U32_U64",)}
    shapes = {}
    for tr, (mname, intr) in intrinsic.items():
        for ty in ("u8", "u16", "u32"):
            key = f"{tr} for {ty}"
            if (tr, ty) not in ims:
                rep.ob("R3-narrow-int-overflow-check", key, False, OPS, 0, f"impl {key} not found")
                continue
            s, e, line = ims[(tr, ty)]
            fs = sw.fns(toks, s, e)
            if mname not in fs:
                rep.ob("R3-narrow-int-overflow-check", key, False, OPS, line, f"fn {mname} not found in impl {key}")
                continue
            bs, be, fl = fs[mname]
            calls = [c for c, _ in sw.calls(toks, bs, be)]
            ifs = sw.if_blocks(toks, bs, be)
            probs = []
            if intr not in calls:
                probs.append(f"does not compute with {intr}")
            guard = None
            for cs_, ce, ts, te, es, ee in ifs:
                ctext = sw.texts(toks, cs_, ce)
                if "__gt" in ctext and any(mx in ctext for mx in maxname[ty]) and "res_u64" in ctext:
                    guard = (ts, te, es, ee)
            if guard is None:
                probs.append(f"no `if __gt(res_u64, {maxname[ty][0]})` range check")
            else:
                ts, te, es, ee = guard
                inner = [i_ for i_ in ifs if ts < i_[0] < te]
                rev = False
                for cs_, ce, t2s, t2e, e2s, e2e in inner:
                    if "panic_on_overflow_enabled" in sw.texts(toks, cs_, ce):
                        then_calls = [c for c, _ in sw.calls(toks, t2s, t2e)]
                        rev = "__revert" in then_calls
                if not rev:
                    probs.append("the overflow branch does not `__revert` under panic_on_overflow_enabled()")
                if es is None:
                    probs.append("no in-range branch")
            if ty == "u8":
                # max_u8_u64 is derived from Self::max()
                txt = sw.texts(toks, bs, be)
                if not ("max_u8_u64" in txt and "max" in txt and "Self" in txt):
                    probs.append("max_u8_u64 is not derived from Self::max()")
            rep.ob("R3-narrow-int-overflow-check", key, not probs, OPS, fl,
                   "; ".join(probs) + f" — `{ty}` {mname} would return an out-of-range value (or wrap silently) instead of reverting on overflow")
            # sibling shape: token kinds with type-specific names normalised
            norm = []
            for k_, tx, _ in toks[bs:be + 1]:
                tx2 = re.sub(r"u8_as_u64|u64_as_u8", "CONV", tx)
                tx2 = re.sub(r"MAX_U(16|32)_U64|max_u8_u64", "MAXC", tx2)
                norm.append(tx2)
            shapes[(tr, ty)] = norm
    rep.floor("R3-narrow-int-overflow-check", 9)
    for tr in intrinsic:
        a, b = shapes.get((tr, "u16")), shapes.get((tr, "u32"))
        rep.ob("R3-width-siblings-agree", f"{tr} u16/u32", a is not None and a == b, OPS, 0,
               f"impl {tr} for u16 and for u32 differ in more than the maximum constant: one of them deviates from the shared range-check shape")
    for ty in ("u8", "u16", "u32"):
        if ("Shift", ty) in ims:
            s, e, line = ims[("Shift", ty)]
            fs = sw.fns(toks, s, e)
            ok = False
            if "lsh" in fs:
                bs, be, _ = fs["lsh"]
                txt = sw.texts(toks, bs, be)
                ok = "__and" in txt and "__lsh" in txt and "max" in txt
            rep.ob("R3-lsh-masks-to-width", f"Shift for {ty}", ok, OPS, line, f"{ty} << n must clear the bits above the type's width (`__and(__lsh(..), Self::max())`)")
    rule_folding(rep)


from lib.common import Prefixed as _Prefixed


IRC = "sway-ir/src/optimize/constants.rs"
# IR BinaryOpKind -> (VM opcode of its lowering, the only evaluator that yields no constant where the VM reverts / drops bits)
IR_FOLD = {"Add": ("ADD", "checked_add"), "Sub": ("SUB", "checked_sub"), "Mul": ("MUL", "checked_mul"), "Div": ("DIV", "checked_div"),
           "Mod": ("MOD", "checked_rem"), "Lsh": ("SLL", "checked_shl"), "Rsh": ("SRL", "checked_shr"),
           "And": ("AND", "&"), "Or": ("OR", "|"), "Xor": ("XOR", "^")}
# wide (u256) right shifts use the total `shr` of the bigint type
IR_FOLD_WIDE_EXTRA = {"Rsh": {"shr", "checked_shr"}}


def rule_folding(rep):
    """R4-R6: constant folding never replaces a reverting operation by a value, and never changes a value.
    R4 asm level (transform_operator! table of constant_propagate.rs, shared with C07 R1)
    R5 IR level, both operands constant (combine_binary_op): each (op, Uint|U256, ..) arm evaluates with the checked evaluator of op
    R6 IR level, one operand constant (remove_useless_binary_op): each algebraic identity agrees with the VM for every value"""
    import C07
    C07.rule_r1(_Prefixed(rep, "R4-asm-fold/"))
    t = tab.tree(IRC)
    f = tab.fn(t, "combine_binary_op")
    ms = [m for m in tab.matches_in(f["body"]) if len(m["arms"]) > 4]
    if len(ms) != 1:
        raise AnalysisError(f"combine_binary_op: expected one fold table, found {len(ms)}")
    n5 = 0
    for arm in ms[0]["arms"]:
        pat = arm["pat"]
        if pat.get("k") != "PTuple" or len(pat["elems"]) != 3 or pat["elems"][0].get("k") != "PIdent":
            if pat.get("k") == "PWild":
                ok = arm["body"].get("k") == "Path" and arm["body"].get("path") == "None"
                rep.ob("R5-ir-fold-default-is-no-fold", "combine_binary_op|_", ok, IRC, arm["l"], "the catch-all arm of the fold table must not produce a constant")
                continue
            rep.ob("R5-ir-fold-arm-understood", f"combine_binary_op|line-shape", False, IRC, arm["l"], "fold-table arm is not of the form (Op, Const(l), Const(r))")
            continue
        op = pat["elems"][0]["name"]
        kinds = [e.get("path") for e in pat["elems"][1:]]
        key = f"{op}({','.join(str(k) for k in kinds)})"
        if op not in IR_FOLD:
            rep.ob("R5-ir-fold-evaluator", key, False, IRC, arm["l"], f"operator {op} has no recorded evaluator")
            continue
        n5 += 1
        want = {IR_FOLD[op][1]}
        if kinds[0] == "U256":
            want |= IR_FOLD_WIDE_EXTRA.get(op, set())
        used = {n["method"] for n in tab.walk(arm["body"]) if n.get("k") == "MethodCall" and re.match(r"(checked_|wrapping_|overflowing_|saturating_|unchecked_)?(add|sub|mul|div|rem|shl|shr|pow)$", n["method"])} | \
               {n["op"] for n in tab.walk(arm["body"]) if n.get("k") == "Binary"}
        rep.ob("R5-ir-fold-evaluator", key, bool(used) and used <= want, IRC, arm["l"],
               f"constant folding of {op} evaluates with {sorted(used)}; only {sorted(want)} yields no constant exactly where the program reverts "
               f"(overflow, division by zero, over-wide shift) and the same value otherwise")
        if any(w.startswith("checked_") for w in want) and used and used <= want and not (used & {"shr"}):
            defaults = sorted({n["method"] for n in tab.walk(arm["body"]) if n.get("k") == "MethodCall" and re.match(r"(unwrap|expect|or$|or_else$|map_or)", n["method"])})
            top_some = arm["body"].get("k") == "Call" and arm["body"]["func"].get("path") == "Some"
            rep.ob("R5-ir-fold-none-propagates", key, not defaults and not top_some, IRC, arm["l"],
                   f"folding of {op} turns the evaluator's `None` (the program reverts at run time) into a constant ({defaults or 'Some(..)'})")
        casts = sorted({n["ty"] for n in tab.walk(arm["body"]) if n.get("k") == "Cast" and re.fullmatch(r"u8|u16|u32|i8|i16|i32|usize", n.get("ty", ""))})
        rep.ob("R5-ir-fold-no-truncating-cast", key, not casts, IRC, arm["l"],
               f"folding of {op} narrows an operand with `as {casts[0] if casts else ''}`: the cast silently drops the high bits (a shift amount of 2^32 + 2 becomes 2), so the "
               "fold produces a value where the VM computes another one; a checked conversion (`try_from(..).ok()`) declines to fold instead")
        # operand order: receiver is the left constant, argument the right one
        names = [e["elems"][0].get("name") if e.get("elems") and e["elems"][0].get("k") == "PIdent" else None for e in pat["elems"][1:]]
        order_ok = True
        for n in tab.walk(arm["body"]):
            if n.get("k") == "MethodCall" and n["method"] in want and n["method"] not in ("map", "ok", "and_then"):
                rv = [x.get("path") for x in tab.walk(n["recv"]) if x.get("k") == "Path"]
                order_ok &= names[0] in rv and names[1] not in rv
            if n.get("k") == "Binary" and n["op"] in want:
                lv = [x.get("path") for x in tab.walk(n["left"]) if x.get("k") == "Path"]
                order_ok &= names[0] in lv
        rep.ob("R5-ir-fold-operand-order", key, order_ok, IRC, arm["l"], f"folding of {op} must apply the evaluator to (left, right) in that order")
    rep.floor("R5-ir-fold-evaluator", 20, n5)
    f = tab.fn(t, "remove_useless_binary_op")
    ms = [m for m in tab.matches_in(f["body"]) if len(m["arms"]) > 3]
    if len(ms) != 1:
        raise AnalysisError(f"remove_useless_binary_op: expected one identity table, found {len(ms)}")
    n6 = 0
    for arm in ms[0]["arms"]:
        pat = arm["pat"]
        if pat.get("k") == "PWild":
            continue
        def const_of(e):
            if e.get("k") == "PTupleStruct" and e.get("path") == "Some" and e["elems"] and e["elems"][0].get("k") == "PTupleStruct" and e["elems"][0]["elems"][0].get("k") == "PLit":
                return e["elems"][0]["elems"][0]["lit"]["v"]
            return None
        if pat.get("k") != "PTuple" or len(pat["elems"]) != 3 or pat["elems"][0].get("k") != "PIdent":
            rep.ob("R6-ir-identity-understood", "remove_useless_binary_op|line-shape", False, IRC, arm["l"], "identity-table arm is not of the form (Op, Some(Uint(c)), _) / (Op, _, Some(Uint(c)))")
            continue
        op = pat["elems"][0]["name"]
        cl, cr = const_of(pat["elems"][1]), const_of(pat["elems"][2])
        res = [x.get("path") for x in tab.walk(arm["body"]) if x.get("k") == "Path" and x.get("path") in ("arg1", "arg2")]
        key = f"{op}: left={cl if cl is not None else '_'} right={cr if cr is not None else '_'} => {','.join(res)}"
        if op not in IR_FOLD or (cl is None) == (cr is None) or len(res) != 1 or pat["elems"][1 if cl is None else 2].get("k") != "PWild":
            rep.ob("R6-ir-identity-understood", key, False, IRC, arm["l"], "identity-table arm has an unrecognised shape")
            continue
        n6 += 1
        cex = C07.identity_counterexample(IR_FOLD[op][0], "left" if cl is not None else "right", cl if cl is not None else cr, "left" if res[0] == "arg1" else "right")
        rep.ob("R6-ir-identity", key, cex is None, IRC, arm["l"], f"replacing `{key}` is not valid for every value of the other operand (reverts included): {cex}")
    rep.floor("R6-ir-identity", 6, n6)
    # ---- R7: compile-time evaluation of arithmetic intrinsics (const / configurable initialisers) --------------------------
    CE = "sway-core/src/ir_generation/const_eval.rs"
    t = tab.tree(CE)
    f = tab.fn(t, "const_eval_intrinsic")
    INTR = {"Add": {"checked_add"}, "Sub": {"checked_sub"}, "Mul": {"checked_mul"}, "Div": {"checked_div"}, "Mod": {"checked_rem"},
            "Lsh": {"checked_shl"}, "Rsh": {"checked_shr", "shr"}, "And": {"bitand", "&"}, "Or": {"bitor", "|"}, "Xor": {"bitxor", "^"}}
    n7 = 0
    for m in tab.matches_in(f["body"]):
        arms = [(a, tab.pat_variants(a["pat"])) for a in m["arms"]]
        single = [(a, vs[0][0].split("::")[-1]) for a, vs in arms if len(vs) == 1 and vs[0][0].startswith("Intrinsic::") and vs[0][0].split("::")[-1] in INTR]
        if not single or any(a["body"].get("k") == "Block" for a, _ in single):
            continue
        for a, op in single:
            used = {n["method"] for n in tab.walk(a["body"]) if n.get("k") == "MethodCall" and re.match(r"(checked_|wrapping_|overflowing_|saturating_|unchecked_)?(add|sub|mul|div|rem|shl|shr|pow)$|bit(and|or|xor)$", n["method"])} | \
                   {n["op"] for n in tab.walk(a["body"]) if n.get("k") == "Binary"}
            n7 += 1
            key = f"Intrinsic::{op}#{sum(1 for x in rep.obls if x['rule'] == 'R7-const-eval-evaluator' and x['key'].startswith('Intrinsic::' + op + '#')) + 1}"
            rep.ob("R7-const-eval-evaluator", key, bool(used) and used <= INTR[op], CE, a["l"],
                   f"compile-time evaluation of __{op.lower()} uses {sorted(used)}; it must use {sorted(INTR[op])} so that an operation that reverts at run time "
                   "is a compile error, not a constant")
            casts = sorted({n["ty"] for n in tab.walk(a["body"]) if n.get("k") == "Cast" and re.fullmatch(r"u8|u16|u32|i8|i16|i32|usize", n.get("ty", ""))})
            rep.ob("R7-const-eval-no-truncating-cast", key, not casts, CE, a["l"], f"compile-time evaluation of __{op.lower()} narrows an operand with `as {casts[0] if casts else ''}`")
            defaults = sorted({n["method"] for n in tab.walk(a["body"]) if n.get("k") == "MethodCall" and re.match(r"(unwrap|expect|or$|or_else$|map_or)", n["method"])})
            rep.ob("R7-const-eval-none-propagates", key, not defaults, CE, a["l"], f"compile-time evaluation of __{op.lower()} replaces a failed evaluation by a default ({defaults})")
        # the None of the evaluator becomes an error, not a constant
    rep.floor("R7-const-eval-evaluator", 25, n7)
    for m in tab.matches_in(f["body"]):
        for a in m["arms"]:
            if a["pat"].get("k") in ("PIdent", "Path", "PPath") and (a["pat"].get("name") or a["pat"].get("path")) == "None":
                errs = [n for n in tab.walk(a["body"]) if n.get("k") == "Call" and n["func"].get("path") == "Err"]
                rep.ob("R7-const-eval-failure-is-an-error", f"None-arm#{sum(1 for x in rep.obls if x['rule'] == 'R7-const-eval-failure-is-an-error') + 1}", bool(errs), CE, a["l"],
                       "a failed compile-time evaluation (overflow, division by zero) must be reported as CannotBeEvaluatedToConst")
    rep.floor("R7-const-eval-failure-is-an-error", 5)

