"""C09 ABI encoding is canonical and round-trips — writer/reader agreement clauses only.

R1 the same types implement AbiEncode and AbiDecode in std codec.sw
R2 tuples: the encoder applies self.0 .. self.{n-1} in index order, the decoder builds (A::abi_decode, B::abi_decode, ..)
   in parameter order, for every arity
R3 arrays: both directions walk i = 0 .. N ascending by 1; slices/str: the decoder reads an 8-byte length then that many bytes
R4 derived impls: struct encode and decode both walk `decl.fields.iter()` in declaration order; enum encode writes the
   variant's `tag` as a u64 before the payload, enum decode reads a u64 first and matches the same `tag` field
Byte-level canonicity against the Fuel ABI and the JSON ABI contents are not decided.
"""
import re
from lib import sw, tab
from lib.common import AnalysisError

LEVEL = "other"
CODEC = "sway-lib-std/src/codec.sw"
GEN = "sway-core/src/semantic_analysis/ast_node/declaration/auto_impl/abi_encoding.rs"


def run(rep):
    rep.explanation = (
        "Decides that the decoder reads what the encoder wrote, in the same order and number: same type sets, tuple components in index / "
        "parameter order for every arity, arrays ascending, length-prefixed byte strings read as length then bytes, derived struct impls walking the "
        "fields in declaration order in both directions, derived enum impls writing and reading the same u64 tag before the payload. Necessary for "
        "round-tripping; canonicity of the bytes against the Fuel ABI specification is not decided.")
    rep.trusted = ["rules/lib/sw.py tokenizer", "syn", "__encode_buffer_append / BufferReader primitives"]
    toks = sw.load(CODEC)
    ims = sw.impls(toks)
    enc = {}
    dec = {}
    for tr, ty, s, e, line in ims:
        if tr == "AbiEncode":
            enc.setdefault(ty, []).append((s, e, line))
        elif tr == "AbiDecode":
            dec.setdefault(ty, []).append((s, e, line))
    for ty in sorted(set(enc) | set(dec)):
        rep.ob("R1-encode-and-decode-for-the-same-types", ty, ty in enc and ty in dec and len(enc[ty]) == len(dec[ty]), CODEC,
               (enc.get(ty) or dec.get(ty))[0][2],
               f"{ty} implements {'AbiEncode' if ty in enc else 'AbiDecode'} only (or a different number of cfg variants): values of this type cannot round-trip")
    rep.floor("R1-encode-and-decode-for-the-same-types", 35)
    # ---- R2 tuples -----------------------------------------------------------------------------------------------------------
    n2 = 0
    for ty in enc:
        m = re.match(r"^\((.+)\)$", ty)
        if not m:
            continue
        params = [p for p in m.group(1).split(",") if p]
        n = len(params)
        s, e, line = enc[ty][0]
        fs = sw.fns(toks, s, e)
        bs, be, fl = fs["abi_encode"]
        txt = " ".join(sw.texts(toks, bs, be))
        idx = [int(x) for x in re.findall(r"self \. (\d+) \. abi_encode \( buffer \)", txt)]
        n2 += 1
        rep.ob("R2-tuple-encode-order", ty, idx == list(range(n)), CODEC, fl,
               f"the {n}-tuple encoder must append self.0 .. self.{n-1} in order; found {idx}")
        if ty in dec:
            s, e, line = dec[ty][0]
            fs = sw.fns(toks, s, e)
            bs, be, fl = fs["abi_decode"]
            txt = " ".join(sw.texts(toks, bs, be))
            order = re.findall(r"(\w+) :: abi_decode \( buffer \)", txt)
            rep.ob("R2-tuple-decode-order", ty, order == params, CODEC, fl,
                   f"the {n}-tuple decoder must build ({', '.join(p + '::abi_decode(buffer)' for p in params)}); found {order}: components are read in a "
                   "different order than they were written")
    rep.floor("R2-tuple-encode-order", 26, n2)
    # ---- R3 arrays and byte strings ----------------------------------------------------------------------------------------------
    for ty, table, fname in (("[T;N]", enc, "abi_encode"), ("[T;N]", dec, "abi_decode")):
        s, e, line = table[ty][0]
        fs = sw.fns(toks, s, e)
        bs, be, fl = fs[fname]
        txt = " ".join(sw.texts(toks, bs, be))
        ok = "let mut i = 0 ;" in txt and "while i < N" in txt and "i + = 1" in txt and "i - = 1" not in txt
        rep.ob("R3-array-walk-ascending", f"{fname} for {ty}", ok, CODEC, fl, "arrays must be walked i = 0; while i < N; i += 1 in both directions")
    for ty in ("raw_slice", "str"):
        for s, e, line in dec.get(ty, []):
            fs = sw.fns(toks, s, e)
            bs, be, fl = fs["abi_decode"]
            txt = " ".join(sw.texts(toks, bs, be))
            a = txt.find("read_8_bytes :: < u64 >")
            b = txt.find("read_bytes ( len )")
            rep.ob("R3-length-prefixed-read", f"abi_decode for {ty}@{line}", 0 <= a < b, CODEC, fl,
                   f"{ty} must be decoded by reading the u64 length and then exactly that many bytes")
    # ---- R4 derived impls -----------------------------------------------------------------------------------------------------------
    g = tab.tree(GEN)
    for fname, coll, frag in (("generate_abi_encode_struct_body", "fields", "self.{field_name}.abi_encode(buffer)"),
                              ("generate_abi_decode_struct_body", "fields", "{field_name}: buffer.decode::<{field_type_name}>()")):
        fn_ = tab.fn(g, fname)
        loops = [n for n in tab.find(fn_["body"], "For")]
        ok = False
        if len(loops) == 1:
            it = loops[0].get("iter") or {}
            plain = it.get("k") == "MethodCall" and it.get("method") == "iter" and it["recv"].get("k") == "Field" and it["recv"].get("member") == coll
            has = any(frag in s_ for s_ in tab.strings(loops[0]["body"]))
            ok = plain and has
        rep.ob("R4-derived-struct-field-order", fname, ok, GEN, fn_.get("l", 0),
               f"{fname} must emit one `{frag}` per element of `decl.{coll}.iter()` in declaration order (no rev/sort/filter)")
    ee = tab.fn(g, "generate_abi_encode_enum_body")
    strs = tab.strings(ee["body"])
    payload = [s_ for s_ in strs if "value.abi_encode(buffer)" in s_]
    ok = bool(payload) and all(s_.find("{tag_value}u64.abi_encode(buffer)") < s_.find("value.abi_encode(buffer)") and "{tag_value}u64.abi_encode(buffer)" in s_ for s_ in payload)
    unit = [s_ for s_ in strs if "{tag_value}u64.abi_encode(buffer)" in s_ and "value.abi_encode" not in s_]
    rep.ob("R4-derived-enum-tag-before-payload", "generate_abi_encode_enum_body", ok and bool(unit), GEN, ee.get("l", 0),
           "the derived enum encoder must write `{tag_value}u64` first and the payload after it (and the tag alone for unit variants)")
    def tag_sources(fn_):
        out = set()
        for n in tab.walk(fn_["body"]):
            if n.get("k") == "Macro" and n.get("name") == "format":
                for a in n.get("args", []):
                    pass
        for n in tab.find(fn_["body"], "Field"):
            if n.get("member") == "tag":
                out.add("tag")
        return out
    ed = tab.fn(g, "generate_abi_decode_enum_body")
    dstrs = tab.strings(ed["body"])
    reads_u64_first = any("let variant: u64 = buffer.decode::<u64>();" in s_ for s_ in dstrs)
    rep.ob("R4-derived-enum-decode-reads-tag-first", "generate_abi_decode_enum_body", reads_u64_first and any("match variant" in s_ for s_ in dstrs), GEN, ed.get("l", 0),
           "the derived enum decoder must read a u64 tag first and dispatch on it")
    rep.ob("R4-derived-enum-same-tag-field", "enum generators", tag_sources(ee) == {"tag"} and tag_sources(ed) == {"tag"}, GEN, ed.get("l", 0),
           "encoder and decoder must both take the tag value from the variant's `tag` field")
    for fn_ in (ee, ed):
        chains = [n for n in tab.find(fn_["body"], "MethodCall") if n.get("method") == "map" and any(x.get("member") == "variants" for x in tab.find(n["recv"], "Field"))]
        bad = [n for c in chains for n in tab.find(c["recv"], "MethodCall") if n.get("method") in ("filter", "skip", "take", "rev", "filter_map", "step_by")]
        rep.ob("R4-derived-enum-every-variant", fn_["name"], bool(chains) and not bad, GEN, fn_.get("l", 0), "every variant must get an arm (variants.iter().map(..) without filter/skip)")
    # ---- R6: an encoder writes on every path -----------------------------------------------------------------------------------
    # The decoder of a type reads unconditionally (it cannot know the value in advance), so an encoder that returns the buffer
    # untouched for some values (`if self.len == 0 { return buffer; }`) drops bytes the decoder expects: the length prefix of an empty
    # Bytes/String is missing and every following field is shifted. All `abi_encode` bodies in the std library are scanned.
    import os
    from lib.common import REPO
    n6 = 0
    for root, _d, files in os.walk(os.path.join(REPO, "sway-lib-std/src")):
        for fn_ in sorted(files):
            if not fn_.endswith(".sw"):
                continue
            rel = os.path.relpath(os.path.join(root, fn_), REPO)
            tk = sw.load(rel)
            T = [t[1] for t in tk]
            for tr, ty, s_, e_, line in sw.impls(tk):
                if tr != "AbiEncode":
                    continue
                fs = sw.fns(tk, s_, e_)
                if "abi_encode" not in fs:
                    continue
                bs, be, fl = fs["abi_encode"]
                # parameter name of the buffer
                j = bs
                while not (T[j] == "fn" and T[j + 1] == "abi_encode"):
                    j -= 1
                po = T.index("(", j)
                pc = sw.match_brace(tk, po, "(", ")")
                ptoks = T[po + 1:pc]
                bufs = [ptoks[k - 1] for k in range(1, len(ptoks)) if ptoks[k] == ":" and k + 1 < len(ptoks) and ptoks[k + 1] == "Buffer"]
                if not bufs:
                    continue
                buf = bufs[0]
                n6 += 1
                bad = [tk[k][2] for k in range(bs, be - 2) if T[k] == "return" and T[k + 1] == buf and T[k + 2] == ";"]
                rep.ob("R6-encoder-writes-on-every-path", f"AbiEncode for {ty} ({rel.split('/')[-1]})", not bad, rel, bad[0] if bad else fl,
                       f"abi_encode of {ty} returns the buffer unchanged on some path (`return {buf};`): the decoder reads unconditionally, so for those values the "
                       "encoding lacks bytes (e.g. the length prefix of an empty collection) and everything after it is shifted")
    rep.floor("R6-encoder-writes-on-every-path", 44, n6)
    # ---- R5: the raw-copy shortcut is taken only for types whose memory image is their canonical encoding -----------------
    # (shared with C10: a wrong classification makes encode() emit padded memory bytes instead of the canonical encoding)
    import C10
    from lib.common import Prefixed
    C10.run(Prefixed(rep, "R5-trivial-shortcut/"))

