"""C20 Forc.lock round-trips the resolved package graph — writer/reader agreement clauses.

R1 each Pinned kind's Display skeleton equals the grammar table and its FromStr consumes the same separators
R2 delimiter direction: the reader takes the first / last occurrence of each separator as the field character classes
   require (spec/c20_grammar.txt)
R3 keyword tables are inverse (branch= / tag= / rev / default-branch; member; PREFIX constants; dispatcher order)
R4 PkgLock fields written by from_node are the ones to_graph reads back; dep lines carry dep_name, key, salt, kind
R5 both directions disambiguate names with the same function
"""
import os, re
from lib import tab, mir, panics
from lib.common import VERIF, AnalysisError

LEVEL = "other"
FIRST = {"split", "split_once", "find", "splitn", "strip_prefix", "starts_with", "split_terminator", "split_inclusive"}
LAST = {"rsplit_once", "rfind", "rsplitn", "strip_suffix", "rsplit", "ends_with"}
KINDS = {
    "git": ("forc-pkg/src/source/git/mod.rs", "Pinned"),
    "registry": ("forc-pkg/src/source/reg/mod.rs", "Pinned"),
    "path": ("forc-pkg/src/source/path.rs", "Pinned"),
    "ipfs": ("forc-pkg/src/source/ipfs.rs", "Pinned"),
}


def load_grammar():
    g = {}
    for ln in open(os.path.join(VERIF, "spec/c20_grammar.txt")):
        if ln.startswith("#") or not ln.strip():
            continue
        kind, skel, sep, direction, why = ln.rstrip("\n").split("\t")
        g.setdefault(kind, dict(skel=skel, seps=[]))["seps"].append((sep, direction, why))
    return g


def impl_fn(tree, self_ty, trait_suffix, name):
    out = []
    for it in tab.items(tree, "Impl"):
        if tab.norm(it.get("self_ty", "")) == self_ty and it.get("trait") and tab.norm(it["trait"]).endswith(trait_suffix):
            for f in it.get("items", []):
                if f.get("k") == "Fn" and f["name"] == name:
                    out.append(f)
    if len(out) != 1:
        raise AnalysisError(f"impl {trait_suffix} for {self_ty}::{name}: found {len(out)}")
    return out[0]


def write_skeleton(fn):
    for kind, nm, n in tab.calls(fn["body"]):
        if kind == "macro" and nm in ("write", "writeln", "format") and n.get("args"):
            for a in n["args"][:2]:
                if a.get("k") == "Lit" and a.get("t") == "str":
                    return a["v"], n
    return None, None


def sep_calls(fn, consts=None):
    """(method, literal) for string-splitting method calls with a literal (or local const) argument."""
    consts = consts or {}
    out = []
    for kind, nm, n in tab.calls(fn["body"]):
        if kind != "method" or nm not in FIRST | LAST:
            continue
        for a in n.get("args", []):
            while a.get("k") == "Ref":
                a = a["expr"]
            if a.get("k") == "Lit" and a.get("t") in ("char", "str"):
                out.append((nm, a["v"], n.get("l", 0)))
            elif a.get("k") == "Path" and a["path"] in consts:
                out.append((nm, consts[a["path"]], n.get("l", 0)))
    return out


def local_consts(fn):
    out = {}
    for n in tab.walk(fn["body"]):
        if n.get("k") == "Const" and (n.get("expr") or {}).get("k") == "Lit":
            out[n["name"]] = n["expr"]["v"]
    return out


def run(rep):
    g = load_grammar()
    rep.explanation = (
        "Decides writer/reader agreement of the Forc.lock text forms: each source kind's Display skeleton and the separators its "
        "FromStr consumes are the same, each separator is taken from the side on which the neighbouring fields cannot contain it, "
        "keyword tables are inverse, and every PkgLock / dep-line field that is written is read back by the same derivation. "
        "Equality of the reconstructed graph for every graph is not decided (e.g. what semver/gix-url/cid Display and FromStr do).")
    rep.trusted = ["syn", "rustc MIR", "spec/c20_grammar.txt (field character classes)", "toml/serde round-trip of String fields"]
    for kind, (rel, ty) in KINDS.items():
        t = tab.tree(rel)
        d = impl_fn(t, ty, "Display", "fmt")
        r = impl_fn(t, ty, "FromStr", "from_str")
        skel, node = write_skeleton(d)
        rep.ob("R1-writer-skeleton", kind, skel == g[kind]["skel"], rel, d.get("l", 0),
               f"Display for {kind}::Pinned writes {skel!r}; the grammar table (and the reader) expects {g[kind]['skel']!r}")
        calls = sep_calls(r, local_consts(r))
        for sep, direction, why in g[kind]["seps"]:
            ms = [(m, l) for m, s, l in calls if s == sep or (len(sep) == 1 and s == sep)]
            if kind in ("ipfs",) and sep == "+":
                # the prefix is checked with a formatted "<PREFIX>+" string
                fm = [n for k_, nm, n in tab.calls(r["body"]) if k_ == "macro" and nm == "format" and n["args"] and n["args"][0].get("v") == "{}+"]
                rep.ob("R2-separator-direction", f"{kind}|{sep}", bool(fm), rel, r.get("l", 0), "the reader does not check the `<PREFIX>+` prefix")
                continue
            if not ms:
                rep.ob("R1-reader-consumes-separator", f"{kind}|{sep}", False, rel, r.get("l", 0),
                       f"FromStr for {kind}::Pinned never splits at {sep!r}, which Display writes")
                continue
            rep.ob("R1-reader-consumes-separator", f"{kind}|{sep}", True, rel, ms[0][1], "")
            for m, l in ms:
                ok = direction == "any" or (direction == "first" and m in FIRST) or (direction == "last" and m in LAST)
                rep.ob("R2-separator-direction", f"{kind}|{sep}", ok, rel, l,
                       f"the reader takes the {'first' if m in FIRST else 'last'} {sep!r} (`{m}`) but must take the {direction} one: {why}; "
                       "a field containing the separator is cut short and the entry fails to load or names another package")
    rep.floor("R2-separator-direction", 7)

    # dep lines
    lk = tab.tree("forc-pkg/src/lock.rs")
    w = tab.fn(lk, "pkg_dep_line")
    r = tab.fn(lk, "parse_pkg_dep_line")
    wl = [n["args"][0]["v"] for k_, nm, n in tab.calls(w["body"]) if k_ == "macro" and nm == "format" and n["args"] and n["args"][0].get("k") == "Lit"]
    rep.ob("R1-writer-skeleton", "depline", set(wl) == {"({dep_name}) {pkg_string}", "{pkg_string} ({salt})"}, "forc-pkg/src/lock.rs", w.get("l", 0),
           f"pkg_dep_line writes {wl}; expected '({{dep_name}}) {{pkg_string}}' and '{{pkg_string}} ({{salt}})'")
    calls = sep_calls(r)
    opening = [(m, l) for m, s, l in calls if s == "("]
    closing = [(m, l) for m, s, l in calls if s == ")"]
    # the first '(' test is the optional dep-name prefix (starts_with); every other use of '(' locates the salt
    for m, l in opening:
        if m == "starts_with":
            continue
        rep.ob("R2-separator-direction", "depline|(", m in LAST, "forc-pkg/src/lock.rs", l,
               f"the salt is located with `{m}('(')` (first occurrence) although the source string before it may contain '(': "
               "the dependency key is cut short and the edge cannot be resolved")
    rep.ob("R1-reader-consumes-separator", "depline|(", any(m != "starts_with" for m, _ in opening) and bool(closing), "forc-pkg/src/lock.rs", r.get("l", 0),
           "parse_pkg_dep_line does not look for the parenthesised salt")
    rep.ob("R1-reader-consumes-separator", "depline|dep-name", any(m == "starts_with" for m, _ in opening) and any(m in ("split_once", "find") for m, _ in closing),
           "forc-pkg/src/lock.rs", r.get("l", 0), "parse_pkg_dep_line does not parse the optional `(dep_name)` prefix up to the first ')'")

    # ---- R3 keyword tables ----------------------------------------------------------------------------------------
    gt = tab.tree("forc-pkg/src/source/git/mod.rs")
    refd = impl_fn(gt, "Reference", "Display", "fmt")
    wkeys = set()
    for k_, nm, n in tab.calls(refd["body"]):
        if k_ == "macro" and nm == "write":
            for a in n["args"]:
                if a.get("k") == "Lit" and a.get("t") == "str":
                    wkeys.add(a["v"].replace("{s}", "").replace("{}", ""))
    rd = impl_fn(gt, "Pinned", "FromStr", "from_str")
    rkeys = set(local_consts(rd).values()) | {s for s in tab.strings(rd["body"]) if s in ("rev", "default-branch", "branch=", "tag=", "default")}
    rep.ob("R3-reference-keywords-inverse", "git::Reference", wkeys == rkeys and len(wkeys) == 4, "forc-pkg/src/source/git/mod.rs", refd.get("l", 0),
           f"Display for Reference writes {sorted(wkeys)} but FromStr recognises {sorted(rkeys)}")
    # dispatcher: source::Pinned::from_str tries every kind; member keyword
    sm = tab.tree("forc-pkg/src/source/mod.rs")
    disp = impl_fn(sm, "Pinned", "FromStr", "from_str")
    body_ids = tab.idents_used(disp["body"]) | {p for n in tab.walk(disp["body"]) if n.get("k") == "Path" for p in [n["path"]]}
    txt = " ".join(sorted(body_ids))
    for kind in ("path", "git", "ipfs", "reg"):
        rep.ob("R3-dispatcher-tries-every-kind", kind, re.search(r"\b" + kind + r"::Pinned", txt) is not None or kind.capitalize() in txt, "forc-pkg/src/source/mod.rs",
               disp.get("l", 0), f"source::Pinned::from_str never tries the {kind} form")
    mt = tab.tree("forc-pkg/src/source/member.rs")
    md = impl_fn(mt, "Pinned", "Display", "fmt")
    mskel, _ = write_skeleton(md)
    rep.ob("R3-member-keyword", "member", mskel is not None and mskel in tab.strings(disp["body"]), "forc-pkg/src/source/member.rs", md.get("l", 0),
           f"member source is written as {mskel!r} but source::Pinned::from_str compares with {tab.strings(disp['body'])}")
    # prefixes are pairwise distinct and none is a prefix of another (the dispatcher tries them in sequence)
    prefixes = {}
    for kind, (rel, ty) in KINDS.items():
        t = tab.tree(rel)
        for it in tab.items(t, "Const"):
            if it["name"] == "PREFIX" and (it.get("expr") or {}).get("k") == "Lit":
                prefixes[kind] = it["expr"]["v"]
    clash = [(a, b) for a in prefixes for b in prefixes if a != b and (prefixes[a] + "+").startswith(prefixes[b] + "+")]
    rep.ob("R3-prefixes-distinct", "PREFIX", len(prefixes) == 4 and not clash, "forc-pkg/src/source/mod.rs", 0,
           f"source prefixes {prefixes} are not pairwise distinct (found {len(prefixes)} of 4; clashes {clash})")

    # ---- R4 field symmetry (E-MIR) --------------------------------------------------------------------------------------
    F = mir.Facts(["forc_pkg"])
    # ---- R6 lossless serialisation of foreign types --------------------------------------------------------------------
    # What the lock file stores is produced by Display impls of forc-pkg's source types. Foreign types they embed must be
    # written with their lossless serialiser; formatters known to lose information are listed here with the reason.
    LOSSY = {
        "gix_url::Url": "gix_url::Url's Display / Debug print the literal `redacted` in place of a password (to_bstring() is the lossless form), "
                        "so a git source whose URL carries credentials would not read back equal",
    }
    n6 = 0
    for f in F.fns.values():
        if f.crate != "forc_pkg":
            continue
        for bi, t in f.calls():
            fn_full = t.get("fn", "")
            m6 = re.search(r"fmt::rt::Argument::<'_>::new_(display|debug|lower_hex|upper_hex)::<&?(?:mut )?([\w:]+)", fn_full) or \
                re.search(r"<([\w:]+) as (?:std|alloc)::string::ToString>::to_string", fn_full)
            if not m6:
                continue
            ty = m6.group(m6.lastindex)
            n6 += 1
            if ty in LOSSY and not f.d.get("exp") and "Debug" not in f.name:
                rep.ob("R6-lossless-serialisation", f"{f.name}|{ty}", False, f.file, t["ln"], f"{f.name} formats a {ty}: " + LOSSY[ty])
    rep.ob("R6-lossless-serialisation", "forc_pkg formats no lossy foreign type", True, "forc-pkg/src", 0, f"{n6} formatter instantiations in forc_pkg inspected")
    rep.floor("R6-lossless-serialisation", 1)
    if n6 < 100:
        raise AnalysisError(f"C20 R6: only {n6} formatter instantiations found in forc_pkg (extractor drift?)")
    # ---- R5b: the writer asks "is this *package name* ambiguous" -------------------------------------------------------
    # names_requiring_disambiguation collects package names, and the reader resolves `(<dep name>) <package name> [<source>]` by
    # package name; so the key looked up in the set when a dependency line is written must be the name of the target package
    # (a node weight of the graph), not the dependency's name on the edge.
    def _root_of_name(fn_, o, depth=10):
        defs_ = mir.defs_of(fn_)
        while depth > 0 and "l" in o:
            depth -= 1
            flds = [p_[3] for p_ in o.get("p", []) if isinstance(p_, list) and p_[0] == "f"]
            if "name" in flds:
                return o["l"]
            ds_ = defs_.get(o["l"], [])
            if len(ds_) != 1:
                return None
            _, _, k_, srcs_, node_ = ds_[0]
            if k_ in ("use", "ref", "cast") and srcs_:
                o = srcs_[0]
                continue
            if k_ == "call" and node_.get("a") and re.search(r"Index<.*>>::index$|Deref>::deref$|::as_str$|Borrow<.*>>::borrow$|AsRef<.*>>::as_ref$", node_.get("rn") or node_.get("fp", "")):
                o = node_["a"][0]
                continue
            return None
        return None
    n5b = 0
    for f in F.fns.values():
        if f.crate != "forc_pkg" or "PkgLock::from_node" not in f.name:
            continue
        for bi, t in f.calls():
            if not re.search(r"HashSet::<T, S, A>::contains$", t.get("fp", "")) or len(t.get("a", [])) < 2:
                continue
            n5b += 1
            base = _root_of_name(f, t["a"][1])
            how = "unresolved"
            ok5b = False
            if base is not None:
                # the struct whose `.name` is taken: reference to the result of indexing the graph by a node index (a package), or an edge weight
                o2 = {"l": base}
                for _ in range(6):
                    ds_ = mir.defs_of(f).get(o2["l"], [])
                    if len(ds_) != 1:
                        break
                    _, _, k_, srcs_, node_ = ds_[0]
                    if k_ in ("use", "ref") and srcs_:
                        o2 = srcs_[0]
                        continue
                    if k_ == "call":
                        fn_full = node_.get("fn", "") or node_.get("fp", "")
                        how = fn_full[:120]
                        ok5b = re.search(r"Index<petgraph::graph_impl::NodeIndex", fn_full) is not None or re.search(r"node_weight", fn_full) is not None
                    break
            if how == "unresolved":
                raise AnalysisError(f"C20 R5b: the key of the disambiguation lookup at {f.file}:{t['ln']} is not the `.name` of a value this rule can trace")
            rep.ob("R5b-disambiguation-looked-up-by-package-name", f"{f.name}|contains#{n5b}", ok5b, f.file, t["ln"],
                   "a dependency line gets its source when the *target package's* name is ambiguous (that is what the set holds and what the reader resolves by); "
                   f"the key looked up here is the `.name` of a value obtained from `{how}`")
    rep.floor("R5b-disambiguation-looked-up-by-package-name", 1, n5b)
    PL = "forc_pkg::lock::PkgLock"
    fn_from = F.fn(PL + "::from_node")
    fn_to = F.fn("forc_pkg::lock::Lock::to_graph")
    written = set()
    for bi, si, s in fn_from.stmts():
        if s["r"]["k"] == "agg" and s["r"].get("adt") == PL:
            written |= set(s["r"].get("fields", []))
    cone = F.cone([fn_to], crates=["forc_pkg"], over_approx_traits=False)
    read = set()
    for fid in cone:
        f = F.fns.get(fid)
        if f:
            read |= {fl for adt, var, fl in mir.fields_read(f) if adt == PL}
    need = {"name", "source", "dependencies", "contract_dependencies"}
    rep.ob("R4-lock-fields-written", PL, need | {"version"} <= written, fn_from.file, fn_from.lo,
           f"PkgLock::from_node writes fields {sorted(written)}; expected name, version, source, dependencies, contract_dependencies")
    rep.ob("R4-lock-fields-read-back", PL, need <= read, fn_to.file, fn_to.lo,
           f"Lock::to_graph reads PkgLock fields {sorted(read)}; {sorted(need - read)} are written by from_node but never read back")
    # dep line components: the writer receives name/kind/salt of the edge, the reader builds Edge::new(dep_name, kind{salt})
    edge_new = [t for _, t in fn_to.calls() if (t.get("fp", "")).endswith("Edge::new")]
    rep.ob("R4-edge-rebuilt", "forc_pkg::lock::Lock::to_graph", len(edge_new) == 1, fn_to.file, fn_to.lo, "to_graph must rebuild each edge with Edge::new(dep_name, dep_kind)")
    salt_used = any(s["r"]["k"] == "agg" and s["r"].get("var") == "Contract" and "DepKind" in s["r"].get("adt", "") for _, _, s in fn_to.stmts())
    rep.ob("R4-salt-read-back", "forc_pkg::lock::Lock::to_graph", salt_used, fn_to.file, fn_to.lo, "to_graph never builds DepKind::Contract { salt } from the parsed salt")
    # contract deps are read from contract_dependencies and library deps from dependencies (not swapped): E-TAB on the two chains
    tg = tab.fn(lk, "to_graph")
    pairs = []
    for n in tab.walk(tg["body"]):
        if n.get("k") == "Let" and n.get("init"):
            flds = {x["member"] for x in tab.find(n["init"], "Field") if x.get("member") in ("dependencies", "contract_dependencies")}
            kinds = {tab.last_seg(p["path"]) for p in tab.find(n["init"], "Path") if p["path"].startswith("UnparsedDepKind::")}
            if flds and kinds:
                pairs.append((sorted(flds), sorted(kinds)))
    want = [(["contract_dependencies"], ["Contract"]), (["dependencies"], ["Library"])]
    rep.ob("R4-dep-kinds-not-swapped", "forc_pkg::lock::Lock::to_graph", sorted(pairs) == want, "forc-pkg/src/lock.rs", tg.get("l", 0),
           f"dependency lists must be tagged dependencies->Library, contract_dependencies->Contract; found {pairs}")
    fr = tab.fn(lk, "from_node")
    # from_node: `dependencies` gets the Library lines, `contract_dependencies` the Contract ones
    fpairs = []
    for n in tab.walk(fr["body"]):
        if n.get("k") == "Let" and n.get("init") and n["pat"].get("k") == "PIdent" or (n.get("k") == "Let" and n.get("pat", {}).get("k") == "PType"):
            pat = n["pat"]
            nm = pat.get("name") or (pat.get("pat") or {}).get("name")
            if nm in ("dependencies", "contract_dependencies") and n.get("init"):
                ks = {tab.last_seg(p["path"]) for p in tab.find(n["init"], "Path") if p["path"].startswith("DepKind::")}
                for pp in tab.walk(n["init"]):
                    if pp.get("k") in ("PStruct", "PTupleStruct", "PPath") and str(pp.get("path", "")).startswith("DepKind::"):
                        ks.add(tab.last_seg(pp["path"]))
                for mm in tab.find(n["init"], "Macro"):
                    if mm.get("name") == "matches":
                        ks |= {k for k in ("Contract", "Library") if k in str(mm)}
                if ks:
                    fpairs.append((nm, sorted(ks)))
    rep.ob("R4-dep-kinds-not-swapped", "forc_pkg::lock::PkgLock::from_node", sorted(fpairs) == [("contract_dependencies", ["Contract"]), ("dependencies", ["Library"])],
           "forc-pkg/src/lock.rs", fr.get("l", 0), f"from_node must put Library edges in `dependencies` and Contract edges in `contract_dependencies`; found {fpairs}")

    # ---- R5 same disambiguation ----------------------------------------------------------------------------------------
    fg = F.fn("forc_pkg::lock::Lock::from_graph")
    for f in (fg, fn_to):
        has = any("names_requiring_disambiguation" in (t.get("fp", "")) for _, t in f.calls())
        rep.ob("R5-same-disambiguation", f.name, has, f.file, f.lo, "names needing disambiguation are not computed with names_requiring_disambiguation")
    # from_graph feeds the names in node order, to_graph in the lock's sorted order: the duplicate detection must not depend on
    # the order (a visited-set membership test), otherwise the two directions disagree on which keys carry the source string
    nrd = F.fn("forc_pkg::lock::names_requiring_disambiguation")
    nfam = [nrd] + [F.fns[c] for c in F.children.get(nrd.id, [])]
    set_insert = [t for f in nfam for _, t in f.calls() if re.search(r"(BTreeSet|HashSet)::<T(, S)?(, A)?>::insert$", t.get("fp", ""))]
    order_dep = [t.get("fp") for f in nfam for _, t in f.calls()
                 if re.search(r"(Option::<T>::replace|core::mem::replace|core::mem::swap|Iterator::(peekable|zip|skip|scan)|<impl \[T\]>::(windows|dedup\w*)|Vec::<T, A>::dedup\w*|Option::<T>::(take|insert|get_or_insert\w*))$", t.get("fp", ""))]
    rep.ob("R5-disambiguation-is-order-insensitive", nrd.name, bool(set_insert) and not order_dep, nrd.file, nrd.lo,
           f"names_requiring_disambiguation must flag a name iff it was seen before (set membership); found set inserts: {len(set_insert)}, "
           f"order-dependent state: {order_dep}. Lock::from_graph passes names in graph-node order and Lock::to_graph in sorted order, so an "
           "adjacency-based test writes bare dependency keys that the reader then cannot resolve")
    users = [f for f in F.fns.values() if f.crate == "forc_pkg" and any((t.get("fp", "")).endswith("lock::pkg_name_disambiguated") for _, t in f.calls())]
    rep.ob("R5-same-disambiguation", "pkg_name_disambiguated", {f.name for f in users} >= {"forc_pkg::lock::pkg_dep_line", PL + "::name_disambiguated"}, "forc-pkg/src/lock.rs", 0,
           f"dependency keys and node keys are not both built by pkg_name_disambiguated (users: {[f.name for f in users]})")
