"""C21 Reading any lock file never crashes.

PANIC(cone) over reach(Lock::from_path, Lock::to_graph, <source::Pinned as FromStr>::from_str): every potentially
panicking construct is enumerated from MIR; each must be discharged by a machine-checked idiom or by a reviewed
entry of spec/c21_sites.txt (keyed by function|construct(receiver)#ordinal, never by line)."""
import re
from lib import mir, panics, sites

LEVEL = "proof"
ROOTS = ["forc_pkg::lock::Lock::from_path", "forc_pkg::lock::Lock::to_graph",
         "<forc_pkg::source::Pinned as core::str::traits::FromStr>::from_str"]


def run(rep):
    F = mir.Facts(["forc_pkg", "forc_util", "sway_types", "sway_utils"])
    roots = [F.fn(r) for r in ROOTS]
    cone = F.cone(roots)
    rep.explanation = (
        "Decides: no potentially panicking MIR construct (overflow/bounds/div asserts, unwrap/expect, slice/str/map "
        "indexing, explicit panics, panicking std APIs of spec/panic_api.txt) is reachable from the lock-loading entry "
        "points without a discharge. The cone is the call-graph closure over forc-pkg/forc-util (closures, fn items "
        "taken as values, all workspace impls of unresolved trait calls, trait impls of workspace types handed to "
        "generic library code such as toml/serde).")
    rep.analysed = dict(roots=ROOTS, cone_functions=len(cone),
                        external_callees=len(F.external_callees(cone)))
    rep.trusted = ["rustc MIR + callee resolution", "toml, serde, semver, cid, gix-url, fuel-tx Salt::from_str, petgraph "
                   "return Err instead of panicking on malformed input", "derive-generated code does not panic"]
    sites.panic_rule(rep, F, cone, "R1-panic-free-cone", "spec/c21_sites.txt")
    rep.floor("R1-panic-free-cone", 10)
    # the four per-source parsers must be in the cone (fail closed if the dispatcher stops calling one)
    for src in ("path", "git", "ipfs", "reg"):
        nm = f"<forc_pkg::source::{src}::Pinned as core::str::traits::FromStr>::from_str"
        fn = F.fn(nm)
        rep.ob("R0-cone-covers-parsers", nm, fn.id in cone, fn.file, fn.lo,
               "source parser not reachable from source::Pinned::from_str: cone incomplete")
    # R2: the reviewed map-index site of spec/c21_sites.txt rests on "both passes derive the key the same way".
    # Decide that part: in Lock::to_graph the key inserted into `pkg_to_node` and the key it is indexed with have the
    # same root computation (today PkgLock::name_disambiguated on the loop element).
    tg = roots[1]
    ins, idx = [], []
    for bi, t in tg.calls():
        nm = t.get("rn") or t.get("fp", "")
        if not t.get("a"):
            continue
        recv = panics.origin_var(tg, t["a"][0])
        if recv != "pkg_to_node":
            continue
        if nm.endswith("HashMap::<K, V, S, A>::insert") and len(t["a"]) >= 2:
            ins.append((t, panics.root_call(tg, t["a"][1])))
        elif re.search(r"HashMap<K, V, S, A> as core::ops::index::Index<&Q>>::index$", nm):
            idx.append((t, panics.root_call(tg, t["a"][1])))
        elif nm.endswith("HashMap::<K, V, S, A>::get") and len(t["a"]) >= 2:
            pass  # total: returns Option
    def rname(r):
        if not r:
            return "?"
        return (r[1].get("rn") or r[1].get("fp")) if r[0] == "call" else f"{r[0]}:{r[1]}"
    for t, r in idx:
        roots_ins = {rname(x) for _, x in ins}
        ok = bool(ins) and roots_ins == {rname(r)} and r and r[0] == "call"
        rep.ob("R2-index-key-agrees-with-insert-key", "forc_pkg::lock::Lock::to_graph|pkg_to_node", ok, tg.file, t["ln"],
               f"`pkg_to_node[..]` is indexed with a key computed by {rname(r)} but entries are inserted under keys computed by "
               f"{sorted(roots_ins)}: a lock file on which the two derivations differ panics with 'no entry found for key'")
    fn = F.fn("forc_pkg::lock::parse_pkg_dep_line")
    rep.ob("R0-cone-covers-parsers", fn.name, fn.id in cone, fn.file, fn.lo, "dep-line parser not in cone")
