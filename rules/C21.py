"""C21 Reading any lock file never crashes.

PANIC(cone) over reach(Lock::from_path, Lock::to_graph, <source::Pinned as FromStr>::from_str): every potentially
panicking construct is enumerated from MIR; each must be discharged by a machine-checked idiom or by a reviewed
entry of spec/c21_sites.txt (keyed by function|construct(receiver)#ordinal, never by line)."""
from lib import mir, panics, sites

LEVEL = "proof"
ROOTS = ["forc_pkg::lock::Lock::from_path", "forc_pkg::lock::Lock::to_graph",
         "<forc_pkg::source::Pinned as core::str::traits::FromStr>::from_str"]


def run(rep):
    F = mir.Facts(["forc_pkg", "forc_util", "sway_types", "sway_utils"])
    roots = [F.fn(r) for r in ROOTS]
    cone = F.cone(roots)
    rep.explanation = (
        "Decides: no potentially panicking MIR construct (overflow/bounds/div asserts, unwrap/expect, slice/str/map "
        "indexing, explicit panics, panicking std APIs of spec/panic_api.txt) is reachable from the lock-loading entry "
        "points without a discharge. The cone is the call-graph closure over forc-pkg/forc-util (closures, fn items "
        "taken as values, all workspace impls of unresolved trait calls, trait impls of workspace types handed to "
        "generic library code such as toml/serde).")
    rep.analysed = dict(roots=ROOTS, cone_functions=len(cone),
                        external_callees=len(F.external_callees(cone)))
    rep.trusted = ["rustc MIR + callee resolution", "toml, serde, semver, cid, gix-url, fuel-tx Salt::from_str, petgraph "
                   "return Err instead of panicking on malformed input", "derive-generated code does not panic"]
    sites.panic_rule(rep, F, cone, "R1-panic-free-cone", "spec/c21_sites.txt")
    rep.floor("R1-panic-free-cone", 10)
    # the four per-source parsers must be in the cone (fail closed if the dispatcher stops calling one)
    for src in ("path", "git", "ipfs", "reg"):
        nm = f"<forc_pkg::source::{src}::Pinned as core::str::traits::FromStr>::from_str"
        fn = F.fn(nm)
        rep.ob("R0-cone-covers-parsers", nm, fn.id in cone, fn.file, fn.lo,
               "source parser not reachable from source::Pinned::from_str: cone incomplete")
    fn = F.fn("forc_pkg::lock::parse_pkg_dep_line")
    rep.ob("R0-cone-covers-parsers", fn.name, fn.id in cone, fn.file, fn.lo, "dep-line parser not in cone")
