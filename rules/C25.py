"""C25 Dirty-file flags are never lost between processes — atomicity rules on the PID lock file.

SHARED = the lock file path (PidFileLocking.0, or a directory entry of ~/.forc/.lsp-locks).
R1 atomic publish: the lock file is never created/truncated and written in place; its content is written to a sibling
   file which is then renamed onto it, after every write to the sibling
R2 no unguarded check-then-delete: a remove_file of the shared path that follows reading it is done while holding the
   exclusive advisory lock, after re-reading the file under that lock; taking the lock over (lock()) holds the same
   advisory lock. The remaining remove (release() of the caller's own or an absent flag) is reviewed
R3 unparsable content is deleted only by cleanup_stale_files, which is safe exactly because of R1 (a live lock is never
   observable with unparsable content)
R4 users: forc-fmt consults is_file_dirty before it writes a file; the LSP sets the flag on didChange and clears it on
   didSave / close / delete
"""
import re
from lib import mir, panics, tab

LEVEL = "other"
FSL = "forc_util::fs_locking::PidFileLocking"
CREATE = re.compile(r"^std::fs::(File::create|File::create_new|write|OpenOptions::open|File::options)$|^std::fs::OpenOptions")
REMOVE = re.compile(r"^std::fs::remove_file$")


def is_shared(f, o):
    """operand derives from self.0 (the lock path) without passing a sibling-producing call."""
    defs = mir.defs_of(f)
    depth = 12
    while depth > 0 and "l" in o:
        depth -= 1
        for p in o.get("p", []):
            if isinstance(p, list) and p[0] == "f" and p[1].endswith("fs_locking::PidFileLocking") and p[3] == "0":
                return True
        nm = f.var(o["l"])
        if nm in ("path",) and not o.get("p"):
            return True  # parameter / loop variable naming the shared lock path (remove_stale_file, cleanup loop)
        ds = defs.get(o["l"], [])
        if len(ds) != 1:
            return False
        _, _, k, srcs, node = ds[0]
        if k in ("use", "ref", "cast") and srcs:
            o = srcs[0]
            continue
        if k == "call" and srcs:
            fp = node.get("fp", "")
            if re.search(r"Path::(with_extension|with_file_name|join)$", fp):
                return False
            if re.search(r"(Deref>::deref|::as_ref|::as_path|AsRef<.*>>::as_ref|::borrow|Clone>::clone|DirEntry::path)$", node.get("rn") or fp):
                if fp.endswith("DirEntry::path"):
                    return True
                o = srcs[0]
                continue
        return False
    return False


def guard_drops(lock):
    """drop points (normal flow) of the value returned by RwLock::write() in this function."""
    gdrops = []
    for bi, bb in enumerate(lock.d["bbs"]):
        t = bb["t"]
        dl = None
        if t.get("k") == "drop" and t.get("o"):
            dl = t["o"][0]
        elif t.get("k") == "call" and t.get("fp", "") == "core::mem::drop" and t.get("a"):
            dl = t["a"][0]
        if dl is None or "l" not in dl or bb.get("cu"):
            continue
        o = {"l": dl["l"]}
        for _ in range(6):  # through `?` (Try::branch) and map_err
            rc = panics.root_call(lock, o, depth=16)
            if rc and rc[0] == "call" and re.search(r"Try(>)?::branch$|Result::?<T, E>::map_err$", rc[1].get("fp", "")) and rc[1].get("a"):
                o = rc[1]["a"][0]
                continue
            break
        if rc and rc[0] == "call" and re.search(r"RwLock::?<T>::write$", rc[1].get("fp", "")):
            gdrops.append((bi, t))
    return gdrops


def run(rep):
    F = mir.Facts(["forc_util", "forc_fmt", "sway_lsp"])
    rep.explanation = (
        "Decides the atomicity rules whose violation loses a live flag under a concrete interleaving: the lock file only ever "
        "appears with its owner's PID in it (sibling + rename), and a file found stale is removed only under the exclusive advisory "
        "lock after re-reading it, the same lock under which a lock is taken over. Also that forc-fmt asks before writing and the "
        "LSP sets/clears the flag on the right notifications. PID reuse and the advisory lock itself are trusted.")
    rep.trusted = ["rustc MIR", "rename(2) atomic within a directory", "fd-lock advisory locks exclude each other across processes", "a dead owner's PID is not reused while its file is examined"]
    fns = [f for f in F.fns.values() if f.crate == "forc_util" and f.file == "forc-util/src/fs_locking.rs" and not f.exp]
    lock = F.fn(FSL + "::lock")
    # ---- R1 --------------------------------------------------------------------------------------------------------------
    n1 = 0
    for f in fns:
        for bi, t in f.calls():
            fp = t.get("fp", "")
            if CREATE.search(fp) and t.get("a"):
                n1 += 1
                sh = is_shared(f, t["a"][0])
                rep.ob("R1-lock-file-never-written-in-place", f"{f.name}|{fp.split('::')[-1]}", not sh, f.file, t["ln"],
                       f"{fp} creates/truncates the shared lock file itself: until the PID is written it is empty, and a concurrent "
                       "cleanup_stale_files / get_locker_pid takes the unparsable file for a stale one and deletes the live lock")
    rep.floor("R1-lock-file-never-written-in-place", 1, n1)
    ren = [(bi, t) for bi, t in lock.calls() if t.get("fp", "") == "std::fs::rename"]
    okr = len(ren) == 1 and is_shared(lock, ren[0][1]["a"][1]) and not is_shared(lock, ren[0][1]["a"][0])
    rep.ob("R1-published-by-rename", lock.name, okr, lock.file, ren[0][1]["ln"] if ren else lock.lo,
           "lock() must publish the lock by renaming a sibling file onto the lock path")
    if okr:
        rbi = ren[0][0]
        writes = [(bi, t) for bi, t in lock.calls() if re.search(r"Write>::(write_all|write|flush)$|File::sync_all$", t.get("rn") or t.get("fp", ""))]
        rep.ob("R1-content-complete-before-publication", lock.name, bool(writes) and all(lock.dominates(b, rbi) and b != rbi for b, _ in writes), lock.file, ren[0][1]["ln"],
               "every write to the sibling file must precede the rename")
    # ---- R2 --------------------------------------------------------------------------------------------------------------
    n2 = 0
    REVIEWED_REMOVES = {
        FSL + "::remove_file": "release(): removes the caller's own flag (or nothing) after is_locked() answered false; a race needs two LSP instances "
                               "releasing and locking the same file at once",
    }
    for f in fns:
        removes = [(bi, t) for bi, t in f.calls() if REMOVE.search(t.get("fp", "")) and t.get("a") and is_shared(f, t["a"][0])]
        for rbi, rt in removes:
            n2 += 1
            guard = [(bi, t) for bi, t in f.calls() if re.search(r"RwLock<T>::write$|RwLock::<T>::write$", t.get("fp", "")) or (t.get("fp", "")).endswith("::write") and "fd_lock" in t.get("fp", "")]
            reread = [(bi, t) for bi, t in f.calls() if (t.get("fp", "")).endswith("PidFileLocking::read_pid") or re.search(r"fs::read_to_string$", t.get("fp", ""))]
            guarded = any(f.dominates(gb, rbi) for gb, _ in guard) and any(f.dominates(rb, rbi) and any(f.dominates(gb, rb) for gb, _ in guard) for rb, _ in reread)
            if guarded:  # ... and the guard is still alive at the removal
                gd = guard_drops(f)
                guarded = bool(gd) and not any(any(f.dominates(gb, db) for gb, _ in guard) and rbi in f.reachable(db) for db, _ in gd)
            fam = f.name.split("::{closure")[0]
            if fam in REVIEWED_REMOVES and not guarded:
                rep.ob("R2-stale-removal-guarded", f"{fam}|remove_file", True, f.file, rt["ln"], "reviewed: " + REVIEWED_REMOVES[fam])
                continue
            # unparsable-content branch of cleanup_stale_files (R3)
            if fam.endswith("cleanup_stale_files") and not guarded:
                # allowed only on the parse-failure edge
                ok = _on_parse_failure_edge(f, rbi)
                rep.ob("R3-unparsable-removed-only-by-cleanup", f"{fam}|remove_file", ok, f.file, rt["ln"],
                       "cleanup_stale_files removes a lock file without the guard on a path other than 'content does not parse as a PID'")
                continue
            rep.ob("R2-stale-removal-guarded", f"{fam}|remove_file", guarded, f.file, rt["ln"],
                   "the shared lock file is removed after it was examined, without holding the exclusive advisory lock and re-reading it under the lock: "
                   "another process can take the lock over in between (finding a PID inactive spawns `ps`), and its live flag is deleted")
    rep.floor("R2-stale-removal-guarded", 2, n2)
    g = [(bi, t) for bi, t in lock.calls() if (t.get("fp", "")).endswith("forc_util::path_lock")]
    w = [(bi, t) for bi, t in lock.calls() if re.search(r"RwLock<T>::write$|RwLock::<T>::write$", t.get("fp", ""))]
    okg = bool(g) and bool(w) and bool(ren) and all(lock.dominates(w[0][0], b) for b, _ in ren) and is_shared(lock, g[0][1]["a"][0])
    rep.ob("R2-takeover-under-the-same-guard", lock.name, okg, lock.file, lock.lo,
           "lock() must hold path_lock(lock path).write() across the owner check and the publishing rename")
    if okg:
        wb = w[0][0]
        # the owner check: every examination of the current lock file / its owner in lock() happens under the guard, and one
        # such examination precedes the rename (check-then-take-over is one critical section between two lockers)
        exam = [(bi, t) for bi, t in lock.calls() if re.search(r"PidFileLocking::(read_pid|is_pid_active|get_locker_pid|is_locked)$|fs::read_to_string$|Path::exists$", t.get("fp", ""))]
        rep.ob("R2-owner-check-inside-the-guard", lock.name + "|exists", any(lock.dominates(b, ren[0][0]) for b, _ in exam), lock.file, lock.lo,
               "lock() takes the lock over without examining the current owner first")
        for b, t in exam:
            rep.ob("R2-owner-check-inside-the-guard", f"{lock.name}|{t['fp'].split('::')[-1]}", lock.dominates(wb, b) and wb != b, lock.file, t["ln"],
                   "lock() examines the current owner before it holds the exclusive advisory lock: a second locker can pass the same check "
                   "before the first one's rename, both succeed, and the later rename replaces the PID of a process that is still running")
        # the guard is still held at the rename: no drop of the value returned by write() on a path write -> rename
        gdrops = guard_drops(lock)
        early = [(bi, t) for bi, t in gdrops if lock.dominates(wb, bi) and ren[0][0] in lock.reachable(bi)]
        rep.ob("R2-guard-held-until-publication", lock.name, bool(gdrops) and not early, lock.file, early[0][1]["ln"] if early else lock.lo,
               "the write guard of the advisory lock is released before the rename that publishes the lock" if gdrops else
               "no drop of the advisory write guard found in lock() (fact extraction changed?)")
    # nobody but remove_stale_file / release path removes; get_locker_pid and cleanup go through remove_stale_file
    # every function that decides "stale" (calls is_pid_active) and may delete does so through a guarded removal: either it is
    # itself guarded (checked above) or it delegates to a function whose removal is guarded
    guarded_removers = set()
    for f in fns:
        rem = [(bi, t) for bi, t in f.calls() if REMOVE.search(t.get("fp", "")) and t.get("a") and is_shared(f, t["a"][0])]
        gd = [(bi, t) for bi, t in f.calls() if re.search(r"RwLock<T>::write$|RwLock::<T>::write$", t.get("fp", ""))]
        if rem and gd and all(any(f.dominates(gb, rb) for gb, _ in gd) for rb, _ in rem):
            guarded_removers.add(f.id)
    for nm in ("get_locker_pid", "cleanup_stale_files"):
        f = F.fn(FSL + "::" + nm)
        fam = [f] + [F.fns[c] for c in F.children.get(f.id, [])]
        uses = any(mir.callee_id(t) in guarded_removers for x in fam for _, t in x.calls()) or f.id in guarded_removers
        rep.ob("R2-stale-paths-use-guarded-removal", f.name, uses, f.file, f.lo,
               f"{nm} decides that a lock is stale but does not remove it through a removal that holds the advisory lock and re-reads the file")
    # ---- R4 callers ----------------------------------------------------------------------------------------------------------
    ff = [f for f in F.fns.values() if f.crate == "forc_fmt" and f.name.endswith("::format_file")]
    ok4 = False
    if len(ff) == 1:
        f = ff[0]
        chk = [(bi, t) for bi, t in f.calls() if (t.get("fp", "")).endswith("fs_locking::is_file_dirty")]
        wr = [(bi, t) for bi, t in f.calls() if re.search(r"^std::fs::(write|File::create|OpenOptions::open)$", t.get("fp", "")) or (t.get("fp", "")).endswith("write_file_formatted")]
        fam = [f] + [F.fns[c] for c in F.children.get(f.id, [])]
        ok4 = len(chk) == 1 and all(f.dominates(chk[0][0], b) for b, _ in wr)
        # the dirty answer leads to an early error
        for sbi, call, true_s, false_s in panics.switch_guards(f):
            if call is chk[0][1] if chk else False:
                ok4 = ok4 and all(not f.dominates(true_s, b) or f.preds()[true_s] != [sbi] for b, _ in wr)
    rep.ob("R4-formatter-asks-before-writing", "forc_fmt::format_file", ok4, "forc-plugins/forc-fmt/src/main.rs", ff[0].lo if ff else 0,
           "forc-fmt must call is_file_dirty(file) before any write to the file and bail out when it is dirty")
    nt = tab.tree("sway-lsp/src/handlers/notification.rs")
    def calls_in(fnname):
        fn_ = tab.fn(nt, fnname)
        return {nm for k_, nm, n in tab.calls(fn_["body"]) if k_ == "method"}
    rep.ob("R4-lsp-sets-flag-on-change", "handle_did_change_text_document", "mark_file_as_dirty" in calls_in("handle_did_change_text_document"),
           "sway-lsp/src/handlers/notification.rs", 0, "didChange must mark the file dirty")
    rep.ob("R4-lsp-clears-flag-on-save", "handle_did_save_text_document", "remove_dirty_flag" in calls_in("handle_did_save_text_document"),
           "sway-lsp/src/handlers/notification.rs", 0, "didSave must clear the dirty flag")
    # mark_file_as_dirty -> lock(), remove_dirty_flag -> release()
    G = F
    mk = G.fn("sway_lsp::core::document::PidLockedFiles::mark_file_as_dirty")
    rm = G.fn("sway_lsp::core::document::PidLockedFiles::remove_dirty_flag")
    def reaches(f, target):
        fam = [f] + [G.fns[c] for c in G.children.get(f.id, [])]
        return any((t.get("fp", "")).endswith(target) for x in fam for _, t in x.calls())
    rep.ob("R4-flag-api-wiring", mk.name, reaches(mk, "PidFileLocking::lock"), mk.file, mk.lo, "mark_file_as_dirty must take the PID lock")
    rep.ob("R4-flag-api-wiring", rm.name, reaches(rm, "PidFileLocking::release"), rm.file, rm.lo, "remove_dirty_flag must release the PID lock")


def _on_parse_failure_edge(f, rbi):
    """the block is reached only when `parse::<usize>()` returned Err (discriminant 1 of the Result switch)."""
    for bi, bb in enumerate(f.bbs):
        t = bb["t"]
        if t["k"] != "switch":
            continue
        v = panics.trace_value(f, t["o"][0])
        if v and v[0] == "stmt" and v[1]["r"]["k"] == "disc":
            src = panics.trace_value(f, v[1]["r"]["o"][0]) if "l" in v[1]["r"]["o"][0] else None
            # discriminant of the parse result
            o = v[1]["r"]["o"][0]
            ds = mir.defs_of(f).get(o.get("l"), [])
            if len(ds) == 1 and ds[0][2] == "call" and re.search(r"str>::parse$|<impl str>::parse$", ds[0][4].get("fp", "")):
                targets = dict((val, b) for val, b in t["ts"])
                ok_b = targets.get("0")
                err_b = targets.get("1", t.get("else"))
                if ok_b is not None and err_b is not None:
                    return f.dominates(err_b, rbi) and not f.dominates(ok_b, rbi)
    return False
