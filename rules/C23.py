"""C23 LSP document sync reproduces the client's text.

R1 units        UTF-16 `Position.character` never mixes with byte offsets except through a len_utf16 counting loop
R2 panic cone   PANIC(reach(TextDocument::apply_change, Documents::update_text_document)) within sway-lsp
R3 boundaries   every value position_to_index returns is a char boundary by provenance (or the not-an-index sentinel)
R4 validation   the ranged mutation is dominated by the Ok edge of validate_range on the same range, and uses the same
                position_to_index(range.start/.end) values that were validated, in (start, end) order
R5 validator    validate_range returns Ok only under  start <= end  and  end <= content.len()
R6 line table   every mutation of TextDocument.content is followed on all paths by line_offsets =
                calculate_line_offsets(&content); constructors initialise it the same way; calculate_line_offsets records
                i+1 exactly for '\\n'
R7 full sync    a change without range replaces the whole content with change.text; changes are applied in order
"""
import json, os, re
from lib import mir, panics, sites, slices, units
from lib.common import VERIF, AnalysisError

LEVEL = "other"
TD = "sway_lsp::core::document::TextDocument"
DOC = "sway-lsp/src/core/document.rs"
POS = "lsp_types::Position"


def fld(o, adt, name):
    return any(isinstance(p, list) and p[0] == "f" and p[1] == adt and p[3] == name for p in o.get("p", [])) if "l" in o else False


def edge_dominates(fn, frm, to, blk):
    """the CFG edge frm->to dominates blk: `to` dominates blk and frm is `to`'s only predecessor."""
    return fn.dominates(to, blk) and fn.preds()[to] == [frm]


def cmp_facts(fn, blk):
    """Facts `a <= b` / `a < b` (as (rel, opA, opB)) established by compare-and-branch edges dominating blk."""
    facts = []
    for bi, bb in enumerate(fn.bbs):
        t = bb["t"]
        if t["k"] != "switch" or bb.get("cu") or len(t["ts"]) != 1 or t["ts"][0][0] != "0":
            continue
        cond = t["o"][0]
        st = [s for s in bb["s"] if s["d"]["l"] == cond.get("l") and s["r"]["k"] == "bin"]
        if not st:
            continue
        r = st[-1]["r"]
        a, b = r["o"]
        false_s, true_s = t["ts"][0][1], t["else"]
        for taken, tgt in ((True, true_s), (False, false_s)):
            if not edge_dominates(fn, bi, tgt, blk):
                continue
            op = r["op"]
            if not taken:
                op = {"Gt": "Le", "Ge": "Lt", "Lt": "Ge", "Le": "Gt"}.get(op)
            if op == "Le":
                facts.append(("le", a, b))
            elif op == "Lt":
                facts.append(("lt", a, b))
            elif op == "Ge":
                facts.append(("le", b, a))
            elif op == "Gt":
                facts.append(("lt", b, a))
    return facts


def root(fn, o):
    r = panics.root_call(fn, o)
    if r and r[0] == "call":
        return ("call", r[1].get("rn") or r[1].get("fp", ""), r[1])
    return r


def run(rep):
    F = mir.Facts(["sway_lsp"])
    apply_change = F.fn(TD + "::apply_change")
    p2i = F.fn(TD + "::position_to_index")
    validate = F.fn(TD + "::validate_range")
    clo = F.fn(TD + "::calculate_line_offsets")
    upd = F.fn("sway_lsp::core::document::Documents::update_text_document")
    cone = F.cone([apply_change, upd], crates=["sway_lsp"], over_approx_traits=False)
    cone_fns = [F.fns[i] for i in cone if i in F.fns]
    rep.explanation = (
        "Decides structural clauses of document sync: (R1) the UTF-16 column of an LSP position reaches byte offsets only "
        "through a per-char len_utf16 count; (R2) no unreviewed panicking construct in the change-application cone; "
        "(R3) indices returned by position_to_index are char boundaries by provenance; (R4/R5) a ranged edit mutates the text "
        "only after validate_range accepted exactly the indices it uses, and validate_range accepts only start<=end<=len; "
        "(R6) the line table is rebuilt after every mutation; (R7) full-text changes replace the content, changes apply in order. "
        "Does not decide that the resulting text equals the client's for every edit (that is the conjunction of these with "
        "String::replace_range's contract).")
    rep.trusted = ["rustc MIR + resolution", "String::replace_range / clone_from / char_indices / len_utf16 contracts",
                   "dashmap RefMut derefs to the stored document"]
    rep.analysed = dict(cone_functions=sorted(f.name for f in cone_fns))

    # ---- R1 units ------------------------------------------------------------------------------------
    fl = units.Flow(F, cone_fns, {(POS, "character")}, {(TD, "line_offsets")})
    viols = fl.violations()
    reads = {(f.name) for f, _ in fl.reads}
    for f in cone_fns:
        bad = [v for v in viols if v[0].id == f.id]
        if f.name in reads or bad or fl.taint[f.id]:
            if not bad:
                rep.ob("R1-utf16-units", f.name, True, f.file, f.lo, "UTF-16 column handled without unit mixing")
            for _, ln, kind, detail in bad:
                rep.ob("R1-utf16-units", f"{f.name}|{kind}", False, f.file, ln,
                       detail + " — positions are UTF-16 code units (no other encoding is negotiated): the server text diverges "
                       "from the client's after any non-ASCII character on the line, or the edit lands inside a character")
    rep.floor("R1-utf16-units", 1)
    if not fl.reads:
        raise AnalysisError("R1: no read of lsp_types::Position.character in the change-application cone (anchor missing)")
    # positive fixture: the pre-fix body (byte offset + UTF-16 column) must be flagged by the same engine
    fx = mir.Fn(json.load(open(os.path.join(VERIF, "fixtures/C23/position_to_index_byte_plus_utf16.json"))))
    ffl = units.Flow(F, [fx], {(POS, "character")}, {(TD, "line_offsets")})
    if not any(v[2] == "arith-u16-with-bytes" for v in ffl.violations()):
        raise AnalysisError("R1 self-test: the unit-flow engine no longer flags the byte+UTF-16 fixture")
    rep.note("R1 positive fixture (line_offset + position.character) flagged: ok")


    # ---- R3 boundary provenance of position_to_index ---------------------------------------------------
    sl = slices.backward_slice(p2i, {"l": 0})
    probs = []
    allowed_call = re.compile(
        r"(core::slice::<impl \[T\]>::get|core::option::Option::<&T>::copied|core::option::Option::<T>::unwrap_or|"
        r"alloc::string::String::len|core::str::<impl str>::len|CharIndices<'a> as core::iter::traits::iterator::Iterator>::next|"
        r"<impl char>::len_utf8|core::str::<impl str>::(find|rfind|floor_char_boundary|ceil_char_boundary))$")
    for op in sl["ops"]:
        if not op.startswith("Add"):
            probs.append(f"index computed with {op}")
    for leaf in sl["leaves"]:
        if leaf[0] in ("call", "callfield"):
            if not allowed_call.search(leaf[1]):
                probs.append(f"index derived from {leaf[1]}")
        elif leaf[0] == "const":
            c = leaf[1].strip()
            if not re.match(r"^(const )?(0_usize|core::num::<impl usize>::MAX|usize::MAX|\(\))$", c):
                probs.append(f"constant {c} contributes to the index")
        elif leaf[0] == "param":
            if leaf[1] != 1:
                probs.append("index derived directly from the position parameter")
        else:
            probs.append(f"index of unknown provenance {leaf}")
    # slice reads through `self` must be the two byte-valued fields
    for bi, si, s in p2i.stmts():
        if s["d"]["l"] in {l for l, _ in sl["locals"]}:
            for o in s["r"].get("o", []):
                if fld(o, POS, "character") or fld(o, POS, "line"):
                    if fld(o, POS, "character"):
                        probs.append("Position.character flows into the returned index")
    # the Add must be (start of the slice that is iterated) + (CharIndices offset)
    adds = [(bi, s) for bi, si, s in p2i.stmts() if s["r"]["k"] == "bin" and s["r"]["op"].startswith("Add")
            and s["d"]["l"] in {l for l, _ in sl["locals"]}]
    for bi, s in adds:
        a, b = s["r"]["o"]
        ra, rb = root(p2i, a), root(p2i, b)
        kinds = []
        for r_ in (ra, rb):
            if r_ and r_[0] == "call" and r_[1].endswith("Iterator>::next") and "CharIndices" in r_[1]:
                kinds.append("ci")
            elif r_ and r_[0] == "call" and re.search(r"<impl \[T\]>::get$", r_[1]):
                kinds.append("lo")
            else:
                kinds.append(str(r_ and r_[:2]))
        if sorted(kinds) != ["ci", "lo"]:
            probs.append(f"returned index adds {kinds} (expected: line start + char_indices offset)")
    # the string that is iterated starts at the same line start
    for bi, t in p2i.calls():
        nm = t.get("rn") or t.get("fp", "")
        if nm.endswith("char_indices"):
            r0 = panics.trace_through_ref(p2i, t["a"][0])
            r_ = ("call", r0[1].get("rn") or r0[1].get("fp", ""), r0[1]) if r0 and r0[0] == "call" else None
            ok = False
            if r_ and re.search(r"Index<I>>::index$", r_[1]):
                rng = panics.trace_value(p2i, r_[2]["a"][1])
                if rng and rng[0] == "stmt" and rng[1]["r"].get("adt") == "core::ops::range::Range":
                    st = root(p2i, rng[1]["r"]["o"][0])
                    ok = bool(st and st[0] == "call" and re.search(r"<impl \[T\]>::get$", st[1]))
            if not ok:
                probs.append("char_indices does not iterate content[line_start..]: offsets are not relative to the line start")
    rep.ob("R3-index-is-char-boundary", p2i.name, not probs, p2i.file, p2i.lo,
           "; ".join(sorted(set(probs))) + " — String::replace_range panics (or edits the wrong text) when an index is not a char boundary")

    # ---- R4 validation dominates the ranged mutation --------------------------------------------------
    rr = [(bi, t) for bi, t in apply_change.calls() if (t.get("fp", "")).endswith("String::replace_range")]
    rep.ob("R4-ranged-edit-present", apply_change.name, len(rr) == 1, apply_change.file, apply_change.lo,
           f"expected exactly one String::replace_range in apply_change, found {len(rr)}")
    vcalls = [(bi, t) for bi, t in apply_change.calls() if mir.callee_id(t) == validate.id]
    if len(rr) == 1:
        rbi, rt = rr[0]
        ok_edge = False
        same_range = False
        for vbi, vt in vcalls:
            # find `branch(result)` then the switch on its discriminant; Continue is target "0"
            for bi, t in apply_change.calls():
                if (t.get("fp", "")).endswith("Try>::branch") or (t.get("rn", "")).endswith("Try>::branch"):
                    if t["a"][0].get("l") == vt["d"]["l"]:
                        sw = apply_change.bbs[t["t"]]["t"]
                        if sw["k"] == "switch":
                            cont = [b for v, b in sw["ts"] if v == "0"]
                            if cont and edge_dominates(apply_change, t["t"], cont[0], rbi):
                                ok_edge = True
            vr = root(apply_change, vt["a"][1])
            rng = panics.trace_value(apply_change, rt["a"][1])
            if rng and rng[0] == "stmt" and rng[1]["r"].get("adt") == "core::ops::range::Range":
                ends = []
                for o, want in zip(rng[1]["r"]["o"], ("start", "end")):
                    c = panics.trace_value(apply_change, o)
                    good = False
                    if c and c[0] == "call" and mir.callee_id(c[1]) == p2i.id:
                        arg = c[1]["a"][1]
                        d = panics.trace_value(apply_change, arg)
                        src = None
                        if "l" in arg:
                            ds = mir.defs_of(apply_change).get(arg["l"], [])
                            if len(ds) == 1 and ds[0][3]:
                                src = ds[0][3][0]
                        good = bool(src and fld(src, "lsp_types::Range", want) and root(apply_change, {"l": src["l"]}) == vr)
                    ends.append(good)
                same_range = all(ends)
        rep.ob("R4-validated-before-mutation", apply_change.name, ok_edge, apply_change.file, rt["ln"],
               "String::replace_range is not dominated by the Ok edge of self.validate_range(range)?: an invalid range alters "
               "(or panics on) the document")
        rep.ob("R4-mutation-uses-validated-indices", apply_change.name, same_range, apply_change.file, rt["ln"],
               "the range passed to replace_range is not position_to_index(range.start)..position_to_index(range.end) of the "
               "range that validate_range checked")
    # no write to the document before validation on the ranged path
    writes = []
    for bi, bb in enumerate(apply_change.bbs):
        if bb.get("cu"):
            continue
        for s in bb["s"]:
            if "l" in s["d"] and any(isinstance(p, list) and p[0] == "f" and p[1] == TD for p in s["d"].get("p", [])):
                writes.append((bi, s.get("ln"), "assign " + [p[3] for p in s["d"]["p"] if isinstance(p, list) and p[0] == "f"][-1]))
            if s["r"]["k"] == "ref" and s["r"].get("m") and any(fld(o, TD, f_) for o in s["r"]["o"] for f_ in ("content", "line_offsets", "version", "uri")):
                writes.append((bi, s.get("ln"), "&mut field"))
    for vbi, vt in vcalls:
        early = [w for w in writes if w[0] in apply_change.reachable(0, avoid={vbi}) and vbi in apply_change.reachable(w[0]) and w[0] != vbi]
        rep.ob("R4-no-write-before-validation", apply_change.name, not early, apply_change.file, vt["ln"],
               f"the document is written before validate_range runs ({early[:2]}): a rejected range still alters it")
    rep.floor("R4-no-write-before-validation", 1)

    # ---- R5 validate_range ----------------------------------------------------------------------------
    ok_blocks = [bi for bi, si, s in validate.stmts() if s["d"]["l"] == 0 and s["r"]["k"] == "agg" and s["r"].get("var") == "Ok"]
    need = {"start<=end": False, "end<=len": False}
    detail = []
    for ob_ in ok_blocks:
        got = {"start<=end": False, "end<=len": False}
        for rel, a, b in cmp_facts(validate, ob_):
            ra, rb = root(validate, a), root(validate, b)
            def is_p2i(r_, which):
                if not (r_ and r_[0] == "call" and mir.callee_id(r_[2]) == p2i.id):
                    return False
                arg = r_[2]["a"][1]
                ds = mir.defs_of(validate).get(arg.get("l"), [])
                return len(ds) == 1 and ds[0][3] and fld(ds[0][3][0], "lsp_types::Range", which)
            def is_len(r_):
                if not (r_ and r_[0] == "call" and re.search(r"String::len$|<impl str>::len$", r_[1])):
                    return False
                a0 = r_[2]["a"][0]
                ds = mir.defs_of(validate).get(a0.get("l"), [])
                return any(fld(o, TD, "content") for d in ds for o in d[3])
            if is_p2i(ra, "start") and is_p2i(rb, "end"):
                got["start<=end"] = True
            if is_p2i(ra, "end") and is_len(rb):
                got["end<=len"] = True
        detail.append(str(got))
        if ok_blocks.index(ob_) == 0:
            need = got
        else:
            need = {k: need[k] and got[k] for k in need}
    for k, v in need.items():
        rep.ob("R5-validate_range-accepts-only", f"{validate.name}|{k}", bool(ok_blocks) and v, validate.file, validate.lo,
               f"validate_range can return Ok without having established {k} (facts on Ok paths: {detail}): replace_range then "
               "panics or the edit is applied to the wrong span")

    # ---- R6 line table ----------------------------------------------------------------------------------
    n_mut = 0
    for f in F.fns.values():
        if f.crate != "sway_lsp" or f.exp:
            continue
        muts, rebuilds = [], []
        for bi, bb in enumerate(f.bbs):
            if bb.get("cu"):
                continue
            for s in bb["s"]:
                if s["r"]["k"] == "ref" and s["r"].get("m") and any(fld(o, TD, "content") for o in s["r"]["o"]):
                    muts.append((bi, s.get("ln")))
                if fld(s["d"], TD, "content"):
                    muts.append((bi, s.get("ln")))
                if fld(s["d"], TD, "line_offsets"):
                    r_ = root(f, s["r"]["o"][0]) if s["r"].get("o") else None
                    if r_ and r_[0] == "call" and mir.callee_id(r_[2]) == clo.id:
                        arg = root(f, r_[2]["a"][0])
                        # argument is &self.content
                        a0 = r_[2]["a"][0]
                        okarg = _derives_from_field(f, a0, TD, "content")
                        if okarg:
                            rebuilds.append(bi)
                # constructors
                if s["r"]["k"] == "agg" and s["r"].get("adt") == TD:
                    n_mut += 1
                    fields = s["r"].get("fields", [])
                    ops = s["r"]["o"]
                    byname = dict(zip(fields, ops))
                    r_ = root(f, byname["line_offsets"]) if "line_offsets" in byname else None
                    ok = False
                    if r_ and r_[0] == "call" and mir.callee_id(r_[2]) == clo.id:
                        src = panics.root_local(f, r_[2]["a"][0])
                        dst = panics.root_local(f, byname["content"])
                        ok = src is not None and src == dst
                    rep.ob("R6-line-table-follows-content", f"{f.name}|construct", ok, f.file, s.get("ln", f.lo),
                           "TextDocument is constructed with line_offsets that are not calculate_line_offsets(&content) of the same content")
        for mbi, ln in muts:
            n_mut += 1
            # every path from the mutation to a return passes a rebuild
            reach = f.reachable(mbi, avoid=set(rebuilds))
            escapes = [b for b in reach if f.bbs[b]["t"]["k"] == "ret"] if mbi not in rebuilds else []
            rep.ob("R6-line-table-follows-content", f"{f.name}|mutation", not escapes, f.file, ln or f.lo,
                   "TextDocument.content is mutated and a path to the function's return does not reassign line_offsets = "
                   "calculate_line_offsets(&self.content): later positions are resolved against a stale line table")
    rep.floor("R6-line-table-follows-content", 3, n_mut)
    # calculate_line_offsets: pushes (offset of '\n') + 1, starting from [0]
    nl = push = init0 = False
    for bi, bb in enumerate(clo.bbs):
        for s in bb["s"]:
            r = s["r"]
            if r["k"] == "bin" and r["op"] == "Eq" and any(o.get("c", "").strip() in ("'\\n'", "const '\\n'") for o in r["o"]):
                other = [o for o in r["o"] if "l" in o]
                if other:
                    rc = _item_field(clo, other[0])
                    nl = rc == "1"
                    nl_bb = bi
            if r["k"] == "agg" and r.get("adt") == "[array]" and [o.get("c", "").strip() for o in r["o"]] in (["0_usize"], ["const 0_usize"]):
                init0 = True
        t = bb["t"]
        if t["k"] == "call" and (t.get("fp", "")).endswith("Vec::<T, A>::push"):
            v = panics.trace_value(clo, t["a"][1])
            # value is (_x + 1).0
            arg = t["a"][1]
            ds = mir.defs_of(clo).get(arg.get("l"), [])
            if len(ds) == 1 and ds[0][3]:
                src = ds[0][3][0]
                ds2 = mir.defs_of(clo).get(src.get("l"), [])
                for d in ds2:
                    if d[2] == "bin" and d[4]["r"]["op"].startswith("Add"):
                        a, b = d[4]["r"]["o"]
                        c = [o for o in (a, b) if "c" in o]
                        l = [o for o in (a, b) if "l" in o]
                        if c and l and re.match(r"^(const )?1_usize$", c[0]["c"].strip()) and _item_field(clo, l[0]) == "0":
                            push = True
                            push_bb = bi
    dom_ok = False
    if nl and push:
        sw = clo.bbs[nl_bb]["t"]
        if sw["k"] == "switch" and len(sw["ts"]) == 1 and sw["ts"][0][0] == "0":
            dom_ok = edge_dominates(clo, nl_bb, sw["else"], push_bb) and not clo.dominates(sw["ts"][0][1], push_bb)
    rep.ob("R6-line-starts-after-newline", clo.name, nl and push and init0 and dom_ok, clo.file, clo.lo,
           f"calculate_line_offsets must start from [0] and push (byte offset of each '\\n') + 1 only (newline test on the char: {nl}, "
           f"push of offset+1: {push}, initial [0]: {init0}, push guarded by the test: {dom_ok})")

    # ---- R7 full-text change + order ---------------------------------------------------------------------
    full = False
    for bi, t in apply_change.calls():
        nm = t.get("rn") or t.get("fp", "")
        if re.search(r"Clone>::clone_from$|Clone::clone_from$", nm) or re.search(r"Clone>::clone$|ToOwned>::to_owned$|ToString>::to_string$", nm):
            srcs = t["a"][-1]
            if _derives_from_field(apply_change, srcs, "lsp_types::TextDocumentContentChangeEvent", "text"):
                if re.search(r"clone_from$", nm):
                    full = _derives_from_field(apply_change, t["a"][0], TD, "content")
                else:
                    full = any(fld(s["d"], TD, "content") and panics.root_local(apply_change, s["r"]["o"][0]) == ("l", t["d"]["l"])
                               for _, _, s in apply_change.stmts() if s["r"].get("o"))
                if full:
                    # must not be on the ranged path
                    none_edge = apply_change.bbs[0]["t"]
                    break
    rep.ob("R7-full-text-replaces-content", apply_change.name, full, apply_change.file, apply_change.lo,
           "a change without a range must set content to change.text (whole-document sync)")
    loops = [f for f in cone_fns if any(mir.callee_id(t) == apply_change.id for _, t in f.calls())]
    for f in loops:
        bad = [t for _, t in f.calls() if re.search(r"Iterator::rev$|DoubleEndedIterator::next_back$|Iterator::(skip|step_by|take)$|<impl \[T\]>::(reverse|sort\w*)$",
                                                   t.get("fp", ""))]
        rep.ob("R7-changes-applied-in-order", f.name, not bad, f.file, bad[0]["ln"] if bad else f.lo,
               "content changes must be applied one by one in the order received")
        # an Err from apply_change is propagated, not swallowed
        for bi, t in f.calls():
            if mir.callee_id(t) == apply_change.id:
                used = any(a.get("l") == t["d"]["l"] for _, t2 in f.calls() for a in t2.get("a", []))
                rep.ob("R7-change-error-propagated", f.name, used, f.file, t["ln"],
                       "the Result of apply_change is discarded: a rejected change is silently skipped and later changes are applied to text the client does not have")
    rep.floor("R7-changes-applied-in-order", 1)
    # a range is meaningful only against the text it was made for: the changes of one notification are sequential, each relative
    # to the result of the previous one. So positions are converted / validated only inside apply_change (on the current text);
    # nobody else may call validate_range or position_to_index (e.g. to pre-validate a whole batch against the old text).
    pos_fns = {g.id: g for g in F.fns.values() if g.crate == "sway_lsp" and re.search(r"core::document::TextDocument::(validate_range|position_to_index)$", g.name)}
    if len(pos_fns) < 2:
        raise AnalysisError("C23 R8: TextDocument::validate_range / position_to_index not found")
    allowed_callers = {apply_change.id} | set(pos_fns)
    bad_callers = []
    for g in F.fns.values():
        if g.crate != "sway_lsp" or g.id in allowed_callers:
            continue
        par = g
        # closures of allowed callers are allowed
        pid_ = g.d.get("parent")
        if pid_ in allowed_callers:
            continue
        for _, t in g.calls():
            if mir.callee_id(t) in pos_fns:
                bad_callers.append((g, t))
    rep.ob("R8-ranges-interpreted-against-the-current-text-only", "callers of validate_range / position_to_index", not bad_callers,
           bad_callers[0][0].file if bad_callers else apply_change.file, bad_callers[0][1]["ln"] if bad_callers else apply_change.lo,
           (f"{bad_callers[0][0].name} converts or validates a position outside apply_change: " if bad_callers else "") +
           "a range checked against a text other than the one the change is applied to (the text before an earlier change of the same notification) "
           "rejects valid batches or accepts invalid ones")

    # ---- R2 panic cone (last: two sites are discharged by the rules above) ---------------------------------
    def by_rules(F_, s_):
        def all_ok(*prefixes):
            xs = [o for o in rep.obls if o["rule"].startswith(prefixes)]
            return bool(xs) and all(o["ok"] for o in xs)
        if s_["fn"].id == apply_change.id and s_["label"] == "string_edit" and all_ok("R3-", "R4-", "R5-"):
            return "replace_range(start..end): start<=end<=len by R4+R5, both char boundaries by R3"
        if s_["fn"].id == p2i.id and s_["label"] == "index" and s_["recv"] == "self.content" and all_ok("R6-"):
            return "content[line_start..line_end]: both come from the line table (ascending char boundaries <= len by R6) or content.len()"
        return None
    sites.panic_rule(rep, F, cone, "R2-panic-free-cone", "spec/c23_sites.txt", extra_discharge=by_rules)
    rep.floor("R2-panic-free-cone", 3)


def _derives_from_field(fn, o, adt, name, depth=8):
    """operand is (a reference/deref chain to) field `name` of `adt`."""
    defs = mir.defs_of(fn)
    while depth > 0 and "l" in o:
        depth -= 1
        if fld(o, adt, name):
            return True
        ds = defs.get(o["l"], [])
        if len(ds) != 1:
            return False
        _, _, k, srcs, node = ds[0]
        if k in ("use", "ref", "cast") and srcs:
            o = srcs[0]
            continue
        if k == "call" and srcs and panics.TRANSPARENT.search(node.get("rn") or node.get("fp", "")):
            o = srcs[0]
            continue
        return False
    return False


def _item_field(fn, o, depth=6):
    """'0' / '1' when the operand is field 0 / 1 of the (usize, char) item yielded by CharIndices::next."""
    defs = mir.defs_of(fn)
    while depth > 0 and "l" in o:
        depth -= 1
        fl_ = [p[3] for p in o.get("p", []) if isinstance(p, list) and p[0] == "f"]
        ds = defs.get(o["l"], [])
        if fl_ and len(ds) == 1 and ds[0][2] == "call" and "CharIndices" in (ds[0][4].get("rn") or "") and fl_[-1] in ("0", "1") and len(fl_) >= 2:
            return fl_[-1]
        if len(ds) != 1:
            return None
        _, _, k, srcs, node = ds[0]
        if k == "use" and srcs:
            o = srcs[0]
            continue
        return None
    return None
