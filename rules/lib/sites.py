"""Reviewed-site tables: spec/<x>_sites.txt lines `key <TAB> reason` (key = function|construct(receiver)#ordinal)."""
import os
from .common import VERIF
from . import panics


def load_sites(path):
    tab = {}
    p = os.path.join(VERIF, path)
    if os.path.exists(p):
        for ln in open(p):
            ln = ln.rstrip("\n")
            if not ln.strip() or ln.startswith("#"):
                continue
            k, _, why = ln.partition("\t")
            tab[k.strip()] = why.strip()
    return tab


def panic_rule(rep, F, cone, rule, table_path, extra_discharge=None):
    tab = load_sites(table_path) if table_path else {}
    used = set()
    n_idiom = n_listed = 0
    for s in panics.sites(F, cone):
        why = panics.discharge(F, s)
        if not why and extra_discharge:
            why = extra_discharge(F, s)
        if why:
            n_idiom += 1
            rep.ob(rule, s["key"], True, s["file"], s["line"], "idiom: " + why)
            continue
        if s["key"] in tab:
            used.add(s["key"])
            n_listed += 1
            rep.ob(rule, s["key"], True, s["file"], s["line"], "reviewed: " + tab[s["key"]])
            continue
        rep.ob(rule, s["key"], False, s["file"], s["line"],
               f"potentially panicking {s['label']} reachable via {F.path_to(cone, s['fn'].id)}; "
               f"no discharge idiom applies and the site is not in {table_path}")
    stale = set(tab) - used
    rep.analysed.setdefault("panic_sites", {})[rule] = dict(by_idiom=n_idiom, by_review=n_listed, stale_table_entries=sorted(stale))
    return stale
