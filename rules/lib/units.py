"""Unit-of-measure flow over MIR facts (C23): values counted in one unit (UTF-16 code units) must not be mixed with
values counted in another (UTF-8 byte offsets) except through a counting loop that uses the right per-char length.

Forward, flow-insensitive, inter-procedural taint:
  sources   = operands that read a source field (e.g. lsp_types::Position.character), results of U16 producer calls
  propagate = use / cast / ref / arithmetic / aggregates / transparent + unknown callees (over-taint, never under-taint)
  sinks     = arithmetic or comparison against a BYTE-derived value, comparison against an accumulator that is not
              positively U16, use as a range bound / string index / byte-offset API argument
"""
import re
from collections import defaultdict
from . import mir, slices

CMP = ("Lt", "Le", "Gt", "Ge", "Eq", "Ne", "Cmp")
ARITH = ("Add", "Sub", "Mul", "Div", "Rem", "AddWithOverflow", "SubWithOverflow", "MulWithOverflow",
         "AddUnchecked", "SubUnchecked", "MulUnchecked")

U16_CALLS = re.compile(r"(<impl char>::len_utf16|EncodeUtf16.*Iterator>::count|core::str::<impl str>::encode_utf16)$")
BYTE_CALLS = re.compile(
    r"(alloc::string::String::len|core::str::<impl str>::len|<impl char>::len_utf8|core::str::<impl str>::find|"
    r"core::str::<impl str>::rfind|core::str::<impl str>::(floor|ceil)_char_boundary|"
    r"CharIndices<'a> as core::iter::traits::iterator::Iterator>::next|core::str::iter::CharIndices::<'a>::offset)$")
# callees that take a byte offset / byte range into a string
BYTE_SINK_CALLS = re.compile(
    r"(alloc::string::String::(replace_range|insert|insert_str|remove|truncate|split_off|drain)|"
    r"core::str::<impl str>::(split_at|split_at_mut|is_char_boundary|get|get_mut|get_unchecked|split_at_checked)|"
    r"Index(Mut)?<I>( for str)?>::index(_mut)?|core::ops::index::Index(Mut)?::index(_mut)?)$")
RANGE_ADTS = ("core::ops::range::Range", "core::ops::range::RangeFrom", "core::ops::range::RangeTo",
              "core::ops::range::RangeInclusive", "core::ops::range::RangeToInclusive")


def _is_src_operand(o, src_fields):
    for p in o.get("p", []) if "l" in o else []:
        if isinstance(p, list) and p[0] == "f" and (p[1], p[3]) in src_fields:
            return True
    return False


def _is_byte_field(o, byte_fields):
    for p in o.get("p", []) if "l" in o else []:
        if isinstance(p, list) and p[0] == "f" and (p[1], p[3]) in byte_fields:
            return True
    return False


class Flow:
    def __init__(self, F, fns, src_fields, byte_fields=()):
        """fns: list of mir.Fn analysed together (the cone); src_fields: {(adt, field)} read as U16;
        byte_fields: {(adt, field)} holding byte offsets."""
        self.F = F
        self.fns = {f.id: f for f in fns}
        self.src_fields = set(src_fields)
        self.byte_fields = set(byte_fields)
        self.taint = {f.id: set() for f in fns}  # fn id -> tainted locals
        self.ret_taint = set()
        self.reads = []  # (fn, line) of source reads
        self._solve()

    # ---- fixpoint ----------------------------------------------------------------------------------
    def _solve(self):
        changed = True
        rounds = 0
        while changed and rounds < 50:
            rounds += 1
            changed = False
            for fid, fn in self.fns.items():
                if self._step(fn):
                    changed = True

    def _tainted(self, fn, o):
        if "l" not in o:
            return False
        if _is_src_operand(o, self.src_fields):
            return True
        if o["l"] in self.taint[fn.id]:
            return True
        for p in o.get("p", []):
            if isinstance(p, list) and p[0] == "i" and p[1] in self.taint[fn.id]:
                pass  # index operand tainted: handled as a sink, not as value flow
        return False

    def _add(self, fn, l):
        if l not in self.taint[fn.id]:
            self.taint[fn.id].add(l)
            return True
        return False

    def _step(self, fn):
        ch = False
        T = self.taint[fn.id]
        for bi, bb in enumerate(fn.bbs):
            if bb.get("cu"):
                continue
            for s in bb["s"]:
                r = s["r"]
                ops = r.get("o", [])
                if r["k"] == "bin" and r["op"] in CMP:
                    continue  # the result of a comparison is unit-less
                if r["k"] in ("disc", "len"):
                    continue
                if any(self._tainted(fn, o) for o in ops):
                    if s["d"].get("p") and any(isinstance(p, list) and p[0] == "f" for p in s["d"]["p"]):
                        # write into a field of a local aggregate: taint the aggregate (field-insensitive)
                        ch |= self._add(fn, s["d"]["l"])
                    else:
                        ch |= self._add(fn, s["d"]["l"])
            t = bb["t"]
            if t["k"] != "call":
                continue
            args = t.get("a", [])
            targs = [i for i, a in enumerate(args) if self._tainted(fn, a)]
            cid = mir.callee_id(t)
            nm = t.get("rn") or t.get("fp", "")
            if cid in self.fns:
                callee = self.fns[cid]
                for i in targs:
                    if i + 1 <= callee.nargs and (i + 1) not in self.taint[cid]:
                        self.taint[cid].add(i + 1)
                        ch = True
                if cid in self.ret_taint and "d" in t:
                    ch |= self._add(fn, t["d"]["l"])
            else:
                if U16_CALLS.search(nm) and "d" in t:
                    ch |= self._add(fn, t["d"]["l"])
                elif targs and "d" in t and not BYTE_SINK_CALLS.search(nm):
                    # unknown/transparent callee: over-taint the result
                    ch |= self._add(fn, t["d"]["l"])
        if 0 in T and fn.id not in self.ret_taint:
            self.ret_taint.add(fn.id)
            ch = True
        return ch

    # ---- classification of the *other* operand --------------------------------------------------------
    def classify(self, fn, o):
        """Return (is_byte, is_u16_positive, const_only, has_ops) for an operand via its backward slice."""
        if "c" in o:
            return (False, False, True, False)
        sl = slices.backward_slice(fn, o)
        byte = u16 = False
        const_only = True
        for leaf in sl["leaves"]:
            k = leaf[0]
            if k in ("call", "callfield"):
                const_only = False
                if BYTE_CALLS.search(leaf[1]):
                    byte = True
                if U16_CALLS.search(leaf[1]):
                    u16 = True
                cf = [f for f in self.fns.values() if f.name == leaf[1]]
                if cf and cf[0].id in self.ret_taint:
                    u16 = True
            elif k == "const":
                pass
            else:
                const_only = False
        L = {l for l, _ in sl["locals"]}
        # field reads feeding the slice
        for bi, si, s in fn.stmts():
            if s["d"]["l"] in L:
                for op in s["r"].get("o", []):
                    if _is_byte_field(op, self.byte_fields):
                        byte, const_only = True, False
                    if _is_src_operand(op, self.src_fields):
                        u16, const_only = True, False
        for c in sl["calls"]:
            for a in c.get("a", []):
                if _is_byte_field(a, self.byte_fields):
                    byte, const_only = True, False
                # `self.line_offsets.get(..)`: the receiver is a reference chain to the field
                if self._chain_has_byte_field(fn, a):
                    byte, const_only = True, False
        if any(l in self.taint[fn.id] for l, _ in sl["locals"]):
            u16 = True
            const_only = False
        return (byte, u16, const_only, bool(sl["ops"]))

    def _chain_has_byte_field(self, fn, o, depth=8):
        defs = mir.defs_of(fn)
        while depth > 0 and "l" in o:
            depth -= 1
            if _is_byte_field(o, self.byte_fields):
                return True
            ds = defs.get(o["l"], [])
            if len(ds) != 1 or not ds[0][3]:
                return False
            o = ds[0][3][0]
        return False

    # ---- sinks -------------------------------------------------------------------------------------
    def violations(self):
        """Yield (fn, line, kind, detail) for every unit-mixing site."""
        out = []
        for fid, fn in self.fns.items():
            T = self.taint[fid]
            for bi, bb in enumerate(fn.bbs):
                if bb.get("cu"):
                    continue
                for s in bb["s"]:
                    r = s["r"]
                    ops = r.get("o", [])
                    for o in ops:
                        if _is_src_operand(o, self.src_fields):
                            self.reads.append((fn, s.get("ln", fn.lo)))
                    if r["k"] == "bin" and len(ops) == 2:
                        ta, tb = self._tainted(fn, ops[0]), self._tainted(fn, ops[1])
                        if not (ta or tb):
                            continue
                        for a, b, tother in ((ops[0], ops[1], tb), (ops[1], ops[0], ta)):
                            if not self._tainted(fn, a):
                                continue
                            byte, u16, const_only, has_ops = self.classify(fn, b)
                            if r["op"] in ARITH:
                                if byte and not tother:
                                    out.append((fn, s.get("ln", fn.lo), "arith-u16-with-bytes",
                                                f"{r['op']} combines a UTF-16 code-unit count with a byte offset/length"))
                            elif r["op"] in CMP:
                                if tother:
                                    continue
                                if byte:
                                    out.append((fn, s.get("ln", fn.lo), "compare-u16-with-bytes",
                                                f"{r['op']} compares a UTF-16 code-unit count with a byte offset/length"))
                                elif not u16 and not (const_only and not has_ops):
                                    out.append((fn, s.get("ln", fn.lo), "compare-u16-with-other-count",
                                                f"{r['op']} compares a UTF-16 code-unit count with a counter that is not built from "
                                                "char::len_utf16 / encode_utf16 (e.g. a count of chars or bytes)"))
                    if r["k"] == "agg" and r.get("adt") in RANGE_ADTS and any(self._tainted(fn, o) for o in ops):
                        out.append((fn, s.get("ln", fn.lo), "u16-as-range-bound",
                                    "a UTF-16 code-unit count is used as a bound of a (byte) range"))
                    for o in ops + [s["d"]]:
                        for p in o.get("p", []) if "l" in o else []:
                            if isinstance(p, list) and p[0] == "i" and p[1] in T:
                                out.append((fn, s.get("ln", fn.lo), "u16-as-index", "a UTF-16 code-unit count is used as an index"))
                t = bb["t"]
                if t["k"] == "call":
                    nm = t.get("rn") or t.get("fp", "")
                    if BYTE_SINK_CALLS.search(nm):
                        for i, a in enumerate(t.get("a", [])[1:], 1):
                            if self._tainted(fn, a):
                                out.append((fn, t.get("ln", fn.lo), "u16-to-byte-api",
                                            f"a UTF-16 code-unit count is passed to {nm} (byte offsets)"))
        # de-duplicate
        seen, res = set(), []
        for v in out:
            k = (v[0].id, v[1], v[2])
            if k not in seen:
                seen.add(k)
                res.append(v)
        return res
