"""Shared plumbing for every rule: obligations, violations, known findings, evidence, exit codes."""
import json, os, sys, time, hashlib, re

VERIF = os.path.dirname(os.path.dirname(os.path.dirname(os.path.abspath(__file__))))
REPO = os.environ.get("VERIF_REPO", "/repo")
CACHE = os.path.join(VERIF, ".cache")


class AnalysisError(Exception):
    """The analysis itself could not run (not a property violation)."""


def load_known_findings():
    """known_findings.toml: tiny hand-rolled reader (python3.9 has no tomllib).
    Lines:  known: property=<id> key=<exact key> :: <what fails>
            fixed: property=<id> <commit> <what failed>
    """
    known, fixed = {}, []
    p = os.path.join(VERIF, "known_findings.txt")
    if os.path.exists(p):
        for ln in open(p):
            ln = ln.strip()
            if not ln or ln.startswith("#"):
                continue
            m = re.match(r"known:\s+property=(\S+)\s+key=(\S+)\s+::\s+(.*)$", ln)
            if m:
                known.setdefault(m.group(1), {})[m.group(2)] = m.group(3)
                continue
            m = re.match(r"fixed:\s+property=(\S+)\s+(.*)$", ln)
            if m:
                fixed.append((m.group(1), m.group(2)))
    return known, fixed


class Report:
    def __init__(self, pid, level="other", tier=None):
        self.pid = pid
        self.level = level
        self.tier = tier or os.environ.get("VERIF_TIER", "quick")
        if self.tier not in ("quick", "thorough"):
            self.tier = "quick"
        try:
            self.seed = int(os.environ.get("VERIF_SEED", "0"))
        except ValueError:
            self.seed = 0
        self.t0 = time.time()
        self.obls = []  # dict(rule, key, file, line, ok, detail)
        self.floors = {}  # rule -> (minimum, counted)
        self.analysed = {}
        self.trusted = []
        self.assumptions = []
        self.explanation = ""
        self.notes = []
        self.floor_failures = []

    # --- obligations -------------------------------------------------
    def ob(self, rule, key, ok, file="", line=0, detail=""):
        """Record one obligation. `key` must be stable under unrelated edits (no line numbers)."""
        self.obls.append(dict(rule=rule, key=key, file=file, line=line, ok=bool(ok), detail=detail))
        return ok

    def floor(self, rule, minimum, counted=None):
        """Fail closed when a rule matched fewer instances than were confirmed by hand."""
        if counted is None:
            counted = sum(1 for o in self.obls if o["rule"] == rule)
        self.floors[rule] = (minimum, counted)
        if counted < minimum:
            # deferred: a violation found elsewhere must still be reported as a violation (see finish)
            self.floor_failures.append(
                f"rule {rule}: matched {counted} instances, floor is {minimum} (anchor missing / extractor drift)")

    def note(self, s):
        self.notes.append(s)

    # --- finish ------------------------------------------------------
    def finish(self):
        if os.environ.get("VERIF_SELFTEST_CHILD"):
            # sub-run on a mutated scratch copy: report failing obligations only, write nothing
            bad = [o for o in self.obls if not o["ok"]]
            for o in bad:
                print(f'SELFTEST-FAILED-OB {o["rule"]}\t{o["key"]}\t{o["file"]}:{o["line"]}')
            return 1 if bad else 0
        known, _fixed = load_known_findings()
        known = known.get(self.pid, {})
        bad = [o for o in self.obls if not o["ok"]]
        viols, kf = [], []
        for o in bad:
            k = f'{o["rule"]}:{o["key"]}'
            if k in known:
                kf.append((k, known[k], o))
            else:
                viols.append((k, o))
        for k, what, o in kf:
            print(f'KNOWN-FINDING: property={self.pid} {k} at {o["file"]}:{o["line"]} — {what}')
        rdir = os.path.join(VERIF, "replay", self.pid)
        for k, o in viols:
            os.makedirs(rdir, exist_ok=True)
            fn = os.path.join(rdir, re.sub(r"[^A-Za-z0-9_.-]+", "_", k)[:150] + ".json")
            json.dump(dict(o, property=self.pid, key=k), open(fn, "w"), indent=1)
            print(f'  {o["rule"]} FAILED at {o["file"]}:{o["line"]}  instance={o["key"]}\n      {o["detail"]}')
            print(f"VIOLATION property={self.pid} replay={fn}")
        self.write_evidence(len(viols), kf)
        n = len(self.obls)
        print(
            f"[{self.pid}] tier={self.tier} obligations={n} discharged={n-len(bad)} "
            f"known_findings={len(kf)} violations={len(viols)} wall={time.time()-self.t0:.1f}s"
        )
        if viols:
            return 1
        if self.floor_failures:
            raise AnalysisError("; ".join(self.floor_failures))
        return 0

    def write_evidence(self, nviol, kf):
        n = len(self.obls)
        ok = sum(1 for o in self.obls if o["ok"])
        by_rule = {}
        for o in self.obls:
            r = by_rule.setdefault(o["rule"], dict(obligations=0, discharged=0))
            r["obligations"] += 1
            r["discharged"] += 1 if o["ok"] else 0
        # a few samples per rule, failing ones first
        samples = []
        for r in by_rule:
            xs = [o for o in self.obls if o["rule"] == r]
            xs.sort(key=lambda o: o["ok"])
            for o in xs[:3]:
                samples.append(
                    dict(rule=o["rule"], instance=o["key"], file=o["file"], line=o["line"],
                         verdict="discharged" if o["ok"] else "FAILED", detail=o["detail"][:300])
                )
        distinct = len({(o["rule"], o["key"]) for o in self.obls})
        cov = dict(
            explanation=self.explanation,
            obligations=n,
            discharged=ok + len(kf) * 0,
            evaluations=max(n, 1),
            distinct_nontrivial=distinct,
            rule="one obligation per (rule, resolved instance) enumerated from /repo's current source; "
                 "distinct = distinct (rule, instance-key) pairs",
            checker_cmd=f"./check {self.pid} --tier {self.tier}",
            trusted_base=self.trusted,
            per_rule=by_rule,
            floors={r: dict(minimum=m, counted=c) for r, (m, c) in self.floors.items()},
            analysed=self.analysed,
            samples=samples,
            known_findings=[k for k, _, _ in kf],
            exhaustive=True,
            selftest=getattr(self, "selftest", None),
            notes=self.notes,
        )
        ev = dict(
            property_id=self.pid, tier=self.tier, seed=self.seed, level=self.level,
            coverage=cov, assumptions=self.assumptions, wall_s=round(time.time() - self.t0, 2),
            violations=nviol,
        )
        os.makedirs(os.path.join(VERIF, "evidence"), exist_ok=True)
        p = os.path.join(VERIF, "evidence", f"{self.pid}.json")
        json.dump(ev, open(p + ".tmp", "w"), indent=1, sort_keys=True)
        os.replace(p + ".tmp", p)


def rel(path):
    """Path relative to the repo root."""
    if path.startswith(REPO + "/"):
        return path[len(REPO) + 1:]
    return path


def main_wrapper(pid, fn, level="other"):
    rep = Report(pid, level=level)
    try:
        if rep.tier == "thorough" and not os.environ.get("VERIF_SELFTEST_CHILD"):
            # thorough: never trust cached facts
            os.environ["VERIF_FORCE_FACTS"] = "1"
        fn(rep)
        if rep.tier == "thorough" and not os.environ.get("VERIF_SELFTEST_CHILD"):
            from . import selftest
            selftest.run(rep)
        return rep.finish()
    except AnalysisError as e:
        print(f"ANALYSIS-ERROR property={pid}: {e}")
        rep.notes.append(f"ANALYSIS-ERROR: {e}")
        try:
            rep.write_evidence(0, [])
        except Exception:
            pass
        return 2


class Prefixed:
    """Report proxy: re-run a sibling module's rule under this property with prefixed rule names."""
    def __init__(self, rep, prefix):
        self._rep, self._p = rep, prefix

    def ob(self, rule, *a, **k):
        return self._rep.ob(self._p + rule, *a, **k)

    def floor(self, rule, *a, **k):
        return self._rep.floor(self._p + rule, *a, **k)

    def __getattr__(self, n):
        return getattr(self._rep, n)
