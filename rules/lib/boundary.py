"""Char-boundary provenance (C16 R3): offsets handed to the lexer's span constructors derive only from
boundary-producing sources."""
import re
from . import mir, slices

SPAN_FNS = {"sway_parse::token::span": (1, 2), "sway_parse::token::span_one": (1,), "sway_parse::token::span_until": (1,)}
# calls whose result is a char boundary of the lexed text
ALLOWED = re.compile(
    r"(Peekable<I> as core::iter::traits::iterator::Iterator>::next|Peekable::<I>::(peek|next_if|next_if_eq)|"
    r"core::iter::traits::iterator::Iterator::find|core::str::<impl str>::len|alloc::string::String::len|"
    r"core::char::methods::<impl char>::len_utf8|core::str::<impl str>::is_char_boundary|"
    r"Result<T, E> as core::ops::try_trait::Try>::branch|Option<T> as core::ops::try_trait::Try>::branch|"
    r"core::option::Option::<T>::(ok_or_else|ok_or|unwrap|unwrap_or_default|map_or|map)|core::result::Result::<T, E>::(ok|map_err)|"
    r"alloc::vec::Vec::<T, A>::pop|core::slice::<impl \[T\]>::last)$")


class Checker:
    def __init__(self, F, crate="sway_parse", reviewed=None):
        self.F = F
        self.crate = crate
        self.reviewed = reviewed or {}
        self.callers = {}
        for f in F.fns.values():
            if f.crate != crate:
                continue
            for bi, t in f.calls():
                cid = mir.callee_id(t)
                if cid in F.fns:
                    self.callers.setdefault(cid, []).append((f, t))

    def check_operand(self, fn, o, depth=0, trail=()):
        """Return list of problems (strings); empty = boundary-derived."""
        if depth > 6:
            return ["provenance chain too deep"]
        sl = slices.backward_slice(fn, o)
        probs = []
        if any(op.startswith("Sub") for op in sl["ops"]):
            guarded = any((c.get("fp", "")).endswith("is_char_boundary") for c in sl["calls"]) or self._boundary_loop(fn)
            if not guarded:
                probs.append("offset computed by subtraction (e.g. `len() - 1`) without an is_char_boundary search: may fall inside a multi-byte character")
        if any(op.startswith(("Mul", "Div", "Rem", "Shl", "Shr", "BitAnd", "BitOr")) for op in sl["ops"]):
            probs.append(f"offset computed with {sorted(sl['ops'])}")
        for leaf in sl["leaves"]:
            kind, v = leaf[0], leaf[1]
            if kind == "callfield":
                if ALLOWED.search(v):
                    continue
                cf = [f for f in self.F.fns.values() if f.name == v or f.id == v]
                if cf and cf[0].crate == self.crate:
                    probs += self.check_operand(cf[0], {"l": 0, "p": [["f", "", "", str(leaf[2])]]}, depth + 1, trail + (fn.name,))
                    continue
                probs.append(f"offset obtained from field {leaf[2]} of {v}")
                continue
            if kind == "const":
                m = re.match(r"^(?:const )?(\d+)_usize$", v.strip())
                if m and int(m.group(1)) <= 4:
                    continue
                if "promoted" in v or v.startswith("()") or v in ("false", "true", "const false", "const true") or re.match(r"^(const )?\d+_u(8|32|64)$", v.strip()):
                    continue
                probs.append(f"constant offset {v}")
            elif kind == "call":
                if ALLOWED.search(v):
                    continue
                cf = [f for f in self.F.fns.values() if f.name == v or f.id == v]
                if cf and cf[0].crate == self.crate:
                    # a crate-local helper/closure returning an offset: its return value must be boundary derived
                    probs += self.check_operand(cf[0], {"l": 0}, depth + 1, trail + (fn.name,))
                    continue
                probs.append(f"offset obtained from {v}")
            elif kind == "param":
                probs += self._check_param(fn, v, depth, trail)
            elif kind == "capture":
                probs += self._check_capture(fn, v, depth, trail)
            else:
                probs.append(f"offset of unknown provenance (_{v})")
        return probs

    def _boundary_loop(self, fn):
        return any((t.get("fp", "")).endswith("is_char_boundary") for _, t in fn.calls())

    def _check_param(self, fn, idx, depth, trail):
        key = f"{fn.name}|param{idx}"
        if key in self.reviewed:
            return []
        if fn.kind == "closure":
            probs, found = [], False
            for cf, t in self.callers.get(fn.id, []):
                if (t.get("fp", "")).startswith("core::ops::function::Fn") and len(t["a"]) >= 2 and "l" in t["a"][1]:
                    for d in mir.defs_of(cf).get(t["a"][1]["l"], []):
                        if d[2] == "agg" and 0 <= idx - 2 < len(d[3]):
                            found = True
                            probs += [f"{p} (via call at {cf.file}:{t['ln']})" for p in
                                      self.check_operand(cf, d[3][idx - 2], depth + 1, trail + (fn.name,))]
            if not found:
                return [f"closure parameter #{idx} of {fn.name}: call sites not found (add a reviewed entry)"]
            return probs
        sites = self.callers.get(fn.id, [])
        if not sites:
            return [f"parameter #{idx} of {fn.name} has no caller in {self.crate} (entry point: unconstrained offset)"]
        probs = []
        for cf, t in sites:
            if cf.id == fn.id or cf.name in trail:
                continue
            if idx - 1 < len(t.get("a", [])):
                probs += [f"{p} (via call at {cf.file}:{t['ln']})" for p in self.check_operand(cf, t["a"][idx - 1], depth + 1, trail + (fn.name,))]
        return probs

    def _closure_types(self, fn, local):
        ty = fn.locals[local] if local < len(fn.locals) else ""
        # closure types print as {closure@file:line:col: ...}; match by file:line of the closure body
        out = set()
        m = re.search(r"closure@([^:]+):(\d+):", ty)
        if m:
            for cid in self.F.children.get(fn.id, []):
                c = self.F.fns[cid]
                if c.file.endswith(m.group(1)) or m.group(1).endswith(c.file):
                    if c.lo == int(m.group(2)):
                        out.add(cid)
        return out

    def _check_capture(self, fn, name, depth, trail):
        key = f"{fn.name}|capture:{name}"
        if key in self.reviewed:
            return []
        parent = self.F.fns.get(fn.parent)
        if not parent:
            return [f"captured variable {name}: parent not found"]
        locs = [int(l) for l, v in parent.vars.items() if v == name]
        if not locs and parent.kind == "closure" and name in parent.d.get("upvars", {}).values():
            return self._check_capture(parent, name, depth + 1, trail + (fn.name,))
        if not locs:
            return [f"captured variable {name}: not found in {parent.name}"]
        probs = []
        for l in locs[:3]:
            probs += self.check_operand(parent, {"l": l}, depth + 1, trail + (fn.name,))
        return probs
