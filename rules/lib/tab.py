"""E-TAB: syntax-tree facts from the syn extractor (engines/tabfacts) + tree queries."""
import json, os, subprocess
from .common import VERIF, REPO, AnalysisError

BIN = os.path.join(VERIF, "engines/tabfacts/target/release/tabfacts")
_cache = {}


def parse(*relpaths):
    """Parse files (paths relative to the repo root); returns {relpath: tree}."""
    need = [p for p in relpaths if p not in _cache]
    if need:
        if not os.path.exists(BIN):
            raise AnalysisError(f"extractor not built: {BIN} (run ./setup.sh)")
        for p in need:
            if not os.path.exists(os.path.join(REPO, p)):
                raise AnalysisError(f"anchor file missing: {p}")
        r = subprocess.run([BIN] + [os.path.join(REPO, p) for p in need], capture_output=True, text=True)
        if r.returncode != 0:
            raise AnalysisError("tabfacts failed: " + r.stderr[-2000:])
        d = json.loads(r.stdout)
        for p in need:
            _cache[p] = d[os.path.join(REPO, p)]
    return {p: _cache[p] for p in relpaths}


def tree(relpath):
    return parse(relpath)[relpath]


def tree_abs(path):
    """Parse a file by absolute path (fixtures under /verif)."""
    if not os.path.exists(BIN):
        raise AnalysisError(f"extractor not built: {BIN} (run ./setup.sh)")
    r = subprocess.run([BIN, path], capture_output=True, text=True)
    if r.returncode != 0:
        raise AnalysisError("tabfacts failed: " + r.stderr[-2000:])
    return json.loads(r.stdout)[path]


def walk(node):
    """Pre-order walk over every dict node of a tree."""
    st = [node]
    while st:
        n = st.pop()
        if isinstance(n, dict):
            yield n
            st.extend(reversed(list(n.values())))
        elif isinstance(n, list):
            st.extend(reversed(n))


def items(t, kind=None):
    """All items, including those nested in inline modules and impl blocks."""
    out = []
    def rec(its):
        for it in its or []:
            if not isinstance(it, dict):
                continue
            if kind is None or it.get("k") == kind:
                out.append(it)
            if it.get("k") in ("Mod", "Impl", "Trait"):
                rec(it.get("items"))
    rec(t["items"])
    return out


def enum(t, name):
    xs = [e for e in items(t, "Enum") if e["name"] == name]
    if len(xs) != 1:
        raise AnalysisError(f"enum {name}: found {len(xs)} definitions")
    return xs[0]


def struct(t, name):
    xs = [e for e in items(t, "StructDef") if e["name"] == name]
    if len(xs) != 1:
        raise AnalysisError(f"struct {name}: found {len(xs)} definitions")
    return xs[0]


def fns(t, name, self_ty=None, trait=None):
    """Functions named `name`; optionally restricted to an impl of `self_ty` (prefix match on the printed type)."""
    out = []
    def rec(its, ctx):
        for it in its or []:
            if not isinstance(it, dict):
                continue
            if it.get("k") == "Fn" and it["name"] == name:
                if self_ty is None or (ctx and norm(ctx.get("self_ty", "")).startswith(norm(self_ty))):
                    if trait is None or (ctx and ctx.get("trait") and norm(trait) in norm(ctx["trait"])):
                        out.append(it)
            if it.get("k") == "Impl":
                rec(it.get("items"), it)
            elif it.get("k") in ("Mod", "Trait"):
                rec(it.get("items"), ctx)
    rec(t["items"], None)
    return out


def fn(t, name, self_ty=None, trait=None):
    xs = fns(t, name, self_ty, trait)
    if len(xs) != 1:
        raise AnalysisError(f"function {self_ty or ''}::{name}: found {len(xs)} definitions")
    return xs[0]


def norm(s):
    return s.replace(" ", "")


def find(node, k):
    return [n for n in walk(node) if n.get("k") == k]


def matches_in(node):
    return find(node, "Match")


def pat_variants(p):
    """Expand a pattern into its alternatives: list of (variant_path, pattern_node). Wildcards/idents give ('_', node)."""
    k = p.get("k")
    if k == "POr":
        out = []
        for c in p["cases"]:
            out += pat_variants(c)
        return out
    if k in ("PTupleStruct", "PStruct", "PPath"):
        return [(p["path"], p)]
    if k == "PRef":
        return pat_variants(p["pat"])
    if k == "PIdent":
        if p.get("sub"):
            return pat_variants(p["sub"])
        # an identifier pattern may be a unit variant/const in scope or a binding: report as is
        return [("_" if p["name"][:1].islower() or p["name"] == "_" else p["name"], p)]
    if k == "PWild":
        return [("_", p)]
    if k == "PTuple":
        return [("(tuple)", p)]
    if k == "PLit":
        return [("lit:" + str(p["lit"].get("v")), p)]
    return [("?" + str(k), p)]


def last_seg(path):
    return path.split("::")[-1]


def bound_names(p):
    """Names bound by a pattern, with the field (name or position) they bind: {binding: field}."""
    out = {}
    k = p.get("k")
    if k == "PStruct":
        for f in p["fields"]:
            for b in binders(f["pat"]):
                out[b] = f["name"]
    elif k == "PTupleStruct":
        for i, e in enumerate(p["elems"]):
            for b in binders(e):
                out[b] = str(i)
    return out


def binders(p):
    """All identifiers bound anywhere inside a pattern (ignores `_`-prefixed ones)."""
    out = []
    for n in walk(p):
        if n.get("k") == "PIdent" and not n["name"].startswith("_"):
            out.append(n["name"])
    return out


def field_status(p, variant_fields):
    """For a PStruct/PTupleStruct pattern: field name -> 'bound:<names>' | 'ignored' | 'rest' (covered by `..`)."""
    st = {}
    k = p.get("k")
    names = [f["name"] for f in variant_fields]
    if k == "PStruct":
        seen = set()
        for f in p["fields"]:
            bs = binders(f["pat"])
            seen.add(f["name"])
            st[f["name"]] = ("bound:" + ",".join(bs)) if bs else ("matched" if f["pat"].get("k") not in ("PWild", "PIdent") else "ignored")
        for n in names:
            if n not in seen:
                st[n] = "rest"
    elif k == "PTupleStruct":
        elems = p["elems"]
        ri = next((i for i, e in enumerate(elems) if e.get("k") == "PRest"), None)
        for i, n in enumerate(names):
            if ri is not None and i >= ri and i < len(names) - (len(elems) - ri - 1):
                st[n] = "rest"
                continue
            j = i if ri is None or i < ri else i - (len(names) - len(elems))
            if 0 <= j < len(elems):
                bs = binders(elems[j])
                st[n] = ("bound:" + ",".join(bs)) if bs else ("matched" if elems[j].get("k") not in ("PWild", "PIdent") else "ignored")
            else:
                st[n] = "rest"
    elif k == "PPath":
        for n in names:
            st[n] = "rest"
    return st


def idents_used(node):
    """Identifier uses in an expression tree: single-segment paths, struct shorthand fields, and idents inside macro tokens."""
    out = set()
    discard = set()
    for n in walk(node):
        # `let _ = x;` only silences the unused-variable lint: not a use
        if n.get("k") == "Let" and n["pat"].get("k") == "PWild" and (n.get("init") or {}).get("k") == "Path":
            discard.add(id(n["init"]))
    for n in walk(node):
        k = n.get("k")
        if id(n) in discard:
            continue
        if k == "Path":
            out.add(n["path"].split("::")[0] if "::" not in n["path"] else n["path"])
            if "::" not in n["path"]:
                out.add(n["path"])
        elif "i" in n and len(n) <= 2:
            out.add(n["i"])
    for n in walk(node):
        if n.get("k") == "Struct":
            for f in n["fields"]:
                if f.get("shorthand"):
                    out.add(f["name"])
    return out


def calls(node):
    """(kind, name, node) for every call / method call / macro in a subtree."""
    out = []
    for n in walk(node):
        k = n.get("k")
        if k == "MethodCall":
            out.append(("method", n["method"], n))
        elif k == "Call" and n["func"].get("k") == "Path":
            out.append(("call", n["func"]["path"], n))
        elif k == "Macro":
            out.append(("macro", n["name"], n))
    return out


def strings(node):
    return [n["v"] for n in walk(node) if n.get("k") == "Lit" and n.get("t") == "str"]


def has_wildcard_arm(m):
    """True when a match has a catch-all arm (`_`, or a bare binding) without a guard."""
    for a in m["arms"]:
        if a.get("guard"):
            continue
        for v, p in pat_variants(a["pat"]):
            if v == "_" and p.get("k") in ("PWild", "PIdent"):
                return a
    return None


def arms_by_variant(m):
    """variant last segment -> list of (arm, pattern node) for a match over one enum."""
    out = {}
    for a in m["arms"]:
        for v, p in pat_variants(a["pat"]):
            out.setdefault(last_seg(v), []).append((a, p))
    return out


def show(e):
    """Compact, whitespace-free rendering of an expression / pattern node, for comparing two expressions structurally."""
    if e is None:
        return ""
    if isinstance(e, str):
        return e
    k = e.get("k")
    a = lambda xs: ",".join(show(x) for x in xs)
    if k == "Path" or k == "PPath":
        return e["path"]
    if k == "PIdent":
        return e["name"]
    if k == "MethodCall":
        return f"{show(e['recv'])}.{e['method']}({a(e['args'])})"
    if k == "Call":
        return f"{show(e['func'])}({a(e['args'])})"
    if k == "Field":
        return f"{show(e['base'])}.{e['member']}"
    if k == "Lit":
        return repr(e.get("v")) if e.get("t") == "str" else str(e.get("v"))
    if k == "PLit":
        return show(e["lit"])
    if k == "Unary":
        return e["op"] + show(e["expr"])
    if k == "Binary":
        return f"({show(e['left'])}{e['op']}{show(e['right'])})"
    if k == "Ref":
        return "&" + ("mut " if e.get("mut") else "") + show(e["expr"])
    if k == "Macro":
        return f"{e.get('name')}!({a(e.get('args', []))})"
    if k == "Closure":
        return f"|{a(e['inputs'])}|{show(e['body'])}"
    if k == "Index":
        return f"{show(e['base'])}[{show(e['index'])}]"
    if k in ("Tuple", "PTuple"):
        return "(" + a(e["elems"]) + ")"
    if k == "PTupleStruct":
        return e["path"] + "(" + a(e["elems"]) + ")"
    if k == "Array":
        return "[" + a(e["elems"]) + "]"
    if k == "Try":
        return show(e["expr"]) + "?"
    if k == "Cast":
        return f"({show(e['expr'])} as {e['ty']})"
    if k == "Block":
        return "{" + ";".join(show(x) for x in e["stmts"]) + "}"
    if k == "Let":
        return f"let {show(e['pat'])}={show(e.get('init'))}"
    if k == "LetCond":
        return f"let {show(e['pat'])}={show(e['expr'])}"
    if k == "If":
        return f"if {show(e['cond'])}{show(e['then'])}" + (f"else{show(e['else'])}" if e.get("else") else "")
    if k == "Struct":
        return e["path"] + "{" + ",".join(f"{f['name']}:{show(f['expr'])}" for f in e["fields"]) + "}"
    if k == "Return":
        return "return " + show(e.get("expr"))
    if k == "Assign":
        return f"{show(e['left'])}={show(e['right'])}"
    if k == "PWild":
        return "_"
    if k == "Range":
        return f"{show(e.get('start'))}{e.get('limits')}{show(e.get('end'))}"
    if k == "For":
        return f"for {show(e['pat'])} in {show(e['iter'])}{show(e['body'])}"
    if k == "Match":
        return f"match {show(e.get('expr') or e.get('scrutinee'))}{{" + ",".join(f"{show(a_['pat'])}=>{show(a_['body'])}" for a_ in e.get("arms", [])) + "}"
    if k == "Other":
        return norm(e.get("t", ""))
    return f"<{k}>"


def lets(node):
    """all `let` statements under node, in source order: (line, bound names, pattern, init)"""
    out = []
    for n in walk(node):
        if n.get("k") == "Let":
            out.append((n["l"], [x["name"] for x in walk(n["pat"]) if x.get("k") == "PIdent"], n["pat"], n.get("init")))
    out.sort(key=lambda x: x[0])
    return out


def placeholders(template):
    """inline `{name}` / `{name:fmt}` captures of a format string (escaped braces skipped); returns [(name, offset)]"""
    out = []
    i = 0
    while i < len(template):
        c = template[i]
        if c in "{}" and template[i:i + 2] == c * 2:
            i += 2
            continue
        if c == "{":
            j = template.index("}", i)
            out.append((template[i + 1:j].split(":")[0].strip(), i))
            i = j + 1
            continue
        i += 1
    return out


def render(template, ph=lambda n: f"__PH_{n}__"):
    """the text a format string produces, with each capture replaced by ph(name) and escaped braces unescaped"""
    out = []
    i = 0
    while i < len(template):
        c = template[i]
        if c in "{}" and template[i:i + 2] == c * 2:
            out.append(c)
            i += 2
            continue
        if c == "{":
            j = template.index("}", i)
            out.append(ph(template[i + 1:j].split(":")[0].strip()))
            i = j + 1
            continue
        out.append(c)
        i += 1
    return "".join(out)

