"""Minimal reader for the rust-peg grammar embedded in sway-ir/src/parser.rs (token level, from tabfacts)."""
from . import tab
from .common import AnalysisError


class Rule:
    def __init__(self, name, line, alts):
        self.name, self.line, self.alts = name, line, alts  # alts: list of token lists


def _is_p(t, ch):
    return t.get("p") == ch


def grammar_rules(tree):
    """Find the peg::parser! invocation and split it into rules."""
    gram = None
    for n in tab.walk(tree):
        if n.get("k") == "Macro" and n["name"].endswith("parser") and "tokens" in n:
            for t in n["tokens"]:
                if t.get("g") == "{":
                    gram = t["t"]
            if gram:
                break
    if gram is None:
        raise AnalysisError("peg grammar not found")
    rules = {}
    i = 0
    n = len(gram)
    starts = [k for k, t in enumerate(gram) if t.get("i") == "rule" and k + 1 < n and "i" in gram[k + 1]]
    for si, k in enumerate(starts):
        end = starts[si + 1] if si + 1 < len(starts) else n
        name = gram[k + 1]["i"]
        line = gram[k + 1].get("l", 0)
        body = gram[k + 2:end]
        # strip a trailing visibility prefix belonging to the next rule: `pub ( in crate :: parser )`
        while body and (body[-1].get("i") == "pub" or (body[-1].get("g") == "(" and len(body) > 1 and body[-2].get("i") == "pub")):
            body = body[:-1]
        # skip "( args ) -> Type" up to the first top-level '=' that is not part of '=>' / '=='
        j = 0
        while j < len(body) and not (_is_p(body[j], "=") and not body[j].get("j")):
            j += 1
        expr = body[j + 1:]
        alts, cur = [], []
        for t in expr:
            if _is_p(t, "/"):
                alts.append(cur)
                cur = []
            else:
                cur.append(t)
        alts.append(cur)
        rules[name] = Rule(name, line, alts)
    return rules


def first_literals(rules, toks, seen=None, depth=0):
    """Set of string literals that can start a match of the token sequence (expanding rule calls)."""
    seen = seen or set()
    out = set()
    i = 0
    while i < len(toks):
        t = toks[i]
        nxt = toks[i + 1] if i + 1 < len(toks) else {}
        # label `x:` prefix
        if "i" in t and _is_p(nxt, ":") and not (i + 2 < len(toks) and _is_p(toks[i + 2], ":")):
            i += 2
            continue
        if _is_p(t, "$") or _is_p(t, "&"):
            i += 1
            continue
        if _is_p(t, "!"):
            # negative lookahead: skip the operand
            i += 2 if not (nxt.get("g") is None and "i" in nxt) else 3
            continue
        nullable = False
        step = 1
        if "lit" in t and t["lit"].startswith('"'):
            lit = t["lit"][1:-1]
            out.add(lit)
        elif t.get("g") == "(":
            # parenthesised sub-expression: alternatives inside
            alts, cur = [], []
            for x in t["t"]:
                if _is_p(x, "/"):
                    alts.append(cur); cur = []
                else:
                    cur.append(x)
            alts.append(cur)
            for a in alts:
                out |= first_literals(rules, a, seen, depth + 1)
        elif "i" in t and nxt.get("g") == "(":
            name = t["i"]
            step = 2
            if name in ("_", "__"):
                nullable = True
            elif name in rules and name not in seen and depth < 12:
                for a in rules[name].alts:
                    out |= first_literals(rules, a, seen | {name}, depth + 1)
        elif t.get("g") == "{":
            break  # action block
        elif t.get("g") == "[":
            out.add("[class]")
        # postfix operators
        j = i + step
        while j < len(toks) and (_is_p(toks[j], "?") or _is_p(toks[j], "*") or _is_p(toks[j], "+")):
            if not _is_p(toks[j], "+"):
                nullable = True
            j += 1
            # `**` separator form: `x ** sep` — skip the separator operand
        if not nullable:
            break
        i = j
    return out


def action_paths(toks):
    """Paths (A::B) mentioned in the trailing action block of an alternative."""
    out = []
    for t in toks:
        if t.get("g") == "{":
            seq = t["t"]
            for k in range(len(seq) - 3):
                if "i" in seq[k] and _is_p(seq[k + 1], ":") and _is_p(seq[k + 2], ":") and "i" in seq[k + 3]:
                    out.append(seq[k]["i"] + "::" + seq[k + 3]["i"])
    return out


def calls(toks):
    return [toks[i]["i"] for i in range(len(toks) - 1) if "i" in toks[i] and toks[i + 1].get("g") == "("]
