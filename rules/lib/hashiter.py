"""C15: iteration over randomly-seeded hash collections (std RandomState HashMap/HashSet, hashbrown default, DashMap)."""
import re
from . import mir, panics

ITER_API = r"(iter|iter_mut|keys|values|values_mut|into_keys|into_values|drain|retain|extract_if|difference|symmetric_difference|intersection|union|into_iter)"
ADAPTERS = re.compile(r"Clone>::clone$|Clone::clone$|Iterator::(map|filter|filter_map|cloned|copied|flat_map|flatten|chain|inspect|peekable|skip_while|take_while|map_while|by_ref|fuse)$|IntoIterator>::into_iter$|IntoIterator::into_iter$")
INSENSITIVE_CONSUMERS = re.compile(r"Iterator::(any|all|count)$")
ORDERED_TARGETS = re.compile(r"^(std::collections::(BTreeMap|BTreeSet|HashMap|HashSet)|alloc::collections::(btree::)?(btree_map::|btree_set::|map::|set::)?(BTreeMap|BTreeSet)|hashbrown::(map::|set::)?(HashMap|HashSet)|std::collections::hash::(map::HashMap|set::HashSet))\b")


def is_random_hash_type(inst):
    """the printed instantiation names a std/hashbrown hash collection without a fixed-seed hasher."""
    if not re.search(r"(std::collections::(hash::(map|set)::)?Hash(Map|Set)|hashbrown::(map::|set::)?Hash(Map|Set)|dashmap::(DashMap|DashSet))", inst):
        return False
    if re.search(r"FxHasher|BuildHasherDefault|FxBuildHasher|fxhash|ahash::RandomState::with_seed", inst):
        return False
    return True


def sites(F, crates):
    out = []
    for f in F.fns.values():
        if f.crate not in crates or f.exp:
            continue
        cnt = {}
        for bi, t in f.calls():
            inst = t.get("fn", "")
            m = re.search(r"::" + ITER_API + r"(::<.*>)?$", inst)
            if not m:
                continue
            api = m.group(1)
            if api == "into_iter":
                # `for x in &map` / `for x in map`
                mm = re.match(r"^<(&mut |&)?(.*) as core::iter::traits::collect::IntoIterator>::into_iter$", inst)
                if not mm or not re.match(r"(std::collections::(hash::(map|set)::)?Hash(Map|Set)|hashbrown::(map::|set::)?Hash(Map|Set)|dashmap::)", mm.group(2)):
                    continue
                if not is_random_hash_type(mm.group(2)):
                    continue
            else:
                if inst.startswith("core::slice") or not re.match(r"^(std::collections::hash::|hashbrown::(map|set)::|dashmap::)", inst):
                    continue
                if not is_random_hash_type(inst):
                    continue
            recv = panics.origin_var(f, t["a"][0]) if t.get("a") else None
            base = f"{f.name}|{api}({recv})"
            cnt[base] = cnt.get(base, 0) + 1
            out.append(dict(fn=f, bb=bi, t=t, api=api, recv=recv, key=f"{base}#{cnt[base]}", file=f.file, line=t["ln"], inst=inst))
    return out


def insensitive(F, s):
    """Reason string when the iteration order cannot be observed, by idiom; else None."""
    f, t = s["fn"], s["t"]
    if s["api"] == "retain":
        return "retain(pred) keeps exactly the elements satisfying the predicate, in any order"
    if "d" not in t:
        return None
    cur = t["d"]["l"]
    seen = set()
    for _ in range(12):
        if cur in seen:
            break
        seen.add(cur)
        users = []
        for bi, t2 in f.calls():
            if t2 is t:
                continue
            a = t2.get("a", [])
            if a and _derives(f, a[0], cur):
                users.append(t2)
        if len(users) != 1:
            return None
        u = users[0]
        nm = u.get("rn") or u.get("fp", "")
        fp = u.get("fp", "")
        if ADAPTERS.search(fp) or ADAPTERS.search(nm):
            if "d" not in u:
                return None
            if _closure_has_effects(F, f, u):
                # the closure runs once per element *in iteration order* and mutates captured state (creates names, pushes, counts):
                # the order is observed even if the results are collected into an unordered container afterwards
                return None
            cur = u["d"]["l"]
            continue
        if re.search(r"Itertools::(sorted|sorted_by|sorted_by_key|sorted_unstable|sorted_unstable_by|sorted_unstable_by_key|sorted_by_cached_key)$", fp):
            return f"sorted with itertools::{fp.split('::')[-1]} before use"
        if INSENSITIVE_CONSUMERS.search(fp):
            return f"consumed by {fp.split('::')[-1]} (order-insensitive)"
        if fp.endswith("Iterator::collect") or fp.endswith("FromIterator::from_iter") or fp.endswith("Iterator::unzip"):
            inst = u.get("fn", "")
            m = re.search(r"::collect::<(.*)>$", inst)
            target = m.group(1) if m else ""
            target = re.sub(r"^core::result::Result<|^core::option::Option<", "", target)
            if ORDERED_TARGETS.match(target):
                return f"collected into {target.split('<')[0]} (its own order, not the iteration order)"
            if re.match(r"^alloc::vec::Vec<", target) and "d" in u:
                # Vec that is sorted afterwards in the same function
                v = u["d"]["l"]
                for bi, t3 in f.calls():
                    if re.search(r"<impl \[T\]>::(sort|sort_by|sort_by_key|sort_unstable|sort_unstable_by|sort_unstable_by_key|sort_by_cached_key)$", t3.get("fp", "")):
                        if t3.get("a") and _derives_from_local(f, t3["a"][0], v):
                            return "collected into a Vec that is sorted before use"
            return None
        if fp.endswith("Extend::extend") or re.search(r"(BTreeSet|BTreeMap|HashSet|HashMap)::<.*>::extend$", u.get("fn", "")):
            return None
        return None
    return None


def _closure_has_effects(F, f, call):
    """the closure passed to an iterator adapter writes through a captured variable (mutable borrow of / through its environment)"""
    for a in call.get("a", [])[1:]:
        if "l" not in a:
            continue
        for d in mir.defs_of(f).get(a["l"], []):
            if d[2] == "agg" and isinstance(d[4], dict) and d[4].get("r", {}).get("closure"):
                cname = d[4]["r"]["closure"]
                tail = cname.rsplit("::", 1)[-1]  # {closure#n}
                cf = [F.fns[c] for c in F.children.get(f.id, []) if F.fns[c].name.rsplit("::", 1)[-1] == tail] or \
                     [x for x in F.fns.values() if x.name == cname or x.d.get("path") == cname]
                if not cf:
                    return True
                return _writes_through_env(F, cf[0])
    return False


def _writes_through_env(F, cf, depth=0):
    if depth > 3:
        return True
    up_mut = False
    for bi, si, st in cf.stmts():
        r = st["r"]
        if r["k"] == "ref" and r.get("m"):
            for o in r.get("o", []):
                if o.get("l") == 1:
                    up_mut = True
        # assignment through the environment
        if st["d"].get("l") == 1 and st["d"].get("p"):
            up_mut = True
    if up_mut:
        return True
    # reborrows of captured `&mut T`: `_k = (*_1).i; _m = &mut *_k`
    env = set()
    for bi, si, st in cf.stmts():
        r = st["r"]
        if r["k"] in ("use", "ref") and any(o.get("l") == 1 or o.get("l") in env for o in r.get("o", []) if "l" in o) and "l" in st["d"] and not st["d"].get("p"):
            env.add(st["d"]["l"])
    for bi, si, st in cf.stmts():
        r = st["r"]
        if r["k"] == "ref" and r.get("m") and any(o.get("l") in env for o in r.get("o", []) if "l" in o):
            return True
    # a captured `&mut T` is used by moving/reborrowing the reference: look for calls that receive a value derived from an
    # environment field whose type is a mutable reference
    for bi, t in cf.calls():
        for a in t.get("a", []):
            if "l" in a:
                for d in mir.defs_of(cf).get(a["l"], []):
                    if d[2] in ("use", "ref") and d[3] and d[3][0].get("l") == 1 and d[4].get("r", {}).get("m", False):
                        return True
    for cid in F.children.get(cf.id, []):
        if _writes_through_env(F, F.fns[cid], depth + 1):
            return True
    return False


def _derives(f, o, local, depth=6):
    while depth > 0 and "l" in o:
        depth -= 1
        if o["l"] == local:
            return True
        ds = mir.defs_of(f).get(o["l"], [])
        if len(ds) != 1:
            return False
        _, _, k, srcs, node = ds[0]
        if k in ("use", "ref") and srcs:
            o = srcs[0]
            continue
        return False
    return False


def _derives_from_local(f, o, local, depth=8):
    """o is (a reborrow / deref_mut / as_mut_slice chain of) `local`, following the named variable it was moved into."""
    target_names = {f.var(local)} if f.var(local) else set()
    # the collect result is usually moved into a named variable
    for bi, si, s in f.stmts():
        if s["r"]["k"] == "use" and s["r"]["o"] and s["r"]["o"][0].get("l") == local and f.var(s["d"]["l"]):
            target_names.add(f.var(s["d"]["l"]))
    r = panics.origin_var(f, o)
    if r and r in target_names:
        return True
    return _derives(f, o, local, depth)
