"""E-SW: a tokenizer + brace matcher for Sway library sources: impl headers, method bodies as token lists, constants.
No parsing beyond that; rules query token sequences (call names, literals, nesting)."""
import re, os
from .common import REPO, AnalysisError

TOK = re.compile(r"""
    (?P<ws>\s+) | (?P<lc>//[^\n]*) | (?P<bc>/\*.*?\*/) |
    (?P<str>"(?:[^"\\]|\\.)*") |
    (?P<num>0x[0-9a-fA-F_]+|0b[01_]+|\d[\d_]*(?:u8|u16|u32|u64|u256)?) |
    (?P<id>[A-Za-z_][A-Za-z0-9_]*) |
    (?P<p>::|->|=>|==|!=|<=|>=|&&|\|\||<<|>>|[{}()\[\];,.:<>=+\-*/%!&|^~#?@$])
""", re.X | re.S)


def tokenize(src):
    out, i, line = [], 0, 1
    while i < len(src):
        m = TOK.match(src, i)
        if not m:
            raise AnalysisError(f"sway tokenizer: unexpected character {src[i]!r} at line {line}")
        kind = m.lastgroup
        text = m.group(0)
        if kind not in ("ws", "lc", "bc"):
            out.append((kind, text, line))
        line += text.count("\n")
        i = m.end()
    return out


def load(rel):
    p = os.path.join(REPO, rel)
    if not os.path.exists(p):
        raise AnalysisError(f"anchor file missing: {rel}")
    return tokenize(open(p).read())


def match_brace(toks, i, open_="{", close="}"):
    """index of the token closing the brace opened at i."""
    depth = 0
    for j in range(i, len(toks)):
        if toks[j][1] == open_:
            depth += 1
        elif toks[j][1] == close:
            depth -= 1
            if depth == 0:
                return j
    raise AnalysisError("unbalanced braces")


def impls(toks):
    """[(trait, type_text, body_start, body_end, line)] for `impl Trait for Type {..}` and (None, type, ..) for inherent impls."""
    out = []
    i = 0
    while i < len(toks):
        if toks[i][1] == "impl" and toks[i][0] == "id":
            j = i + 1
            # skip generics
            if toks[j][1] == "<":
                j = match_brace(toks, j, "<", ">") + 1
            hdr = []
            while toks[j][1] != "{":
                hdr.append(toks[j][1])
                j += 1
            end = match_brace(toks, j)
            txt = " ".join(hdr)
            # drop a where clause
            txt = txt.split(" where ")[0]
            if " for " in txt:
                tr, ty = txt.split(" for ", 1)
            else:
                tr, ty = None, txt
            out.append((tr.strip() if tr else None, ty.strip().replace(" ", ""), j, end, toks[i][2]))
            i = j + 1
            continue
        i += 1
    return out


def fns(toks, start, end):
    """{name: (body_start, body_end, line)} for `fn name(..) .. {` directly inside toks[start:end]."""
    out = {}
    i = start + 1
    depth = 0
    while i < end:
        t = toks[i][1]
        if t == "{":
            i = match_brace(toks, i) + 1
            continue
        if t == "fn" and toks[i][0] == "id":
            name = toks[i + 1][1]
            j = i + 2
            while toks[j][1] not in ("{", ";"):
                if toks[j][1] == "(":
                    j = match_brace(toks, j, "(", ")")
                elif toks[j][1] == "[":
                    j = match_brace(toks, j, "[", "]")
                j += 1
            if toks[j][1] == "{":
                e = match_brace(toks, j)
                out[name] = (j, e, toks[i][2])
                i = e + 1
                continue
            i = j + 1
            continue
        i += 1
    return out


def texts(toks, a, b):
    return [t[1] for t in toks[a:b + 1]]


def calls(toks, a, b):
    """names called in toks[a:b]: identifier directly followed by `(` (or `::<..>(`)."""
    out = []
    for i in range(a, b):
        if toks[i][0] == "id" and i + 1 <= b:
            j = i + 1
            if toks[j][1] == "::" and j + 1 <= b and toks[j + 1][1] == "<":
                j = match_brace(toks, j + 1, "<", ">") + 1
            if j <= b and toks[j][1] == "(":
                out.append((toks[i][1], i))
    return out


def if_blocks(toks, a, b):
    """[(cond_start, cond_end, then_start, then_end, else_start|None, else_end|None)] for `if` expressions in toks[a:b] (all depths)."""
    out = []
    for i in range(a, b):
        if toks[i] [1] == "if" and toks[i][0] == "id":
            j = i + 1
            while toks[j][1] != "{":
                if toks[j][1] == "(":
                    j = match_brace(toks, j, "(", ")")
                j += 1
            te = match_brace(toks, j)
            es = ee = None
            if te + 1 < len(toks) and toks[te + 1][1] == "else" and toks[te + 2][1] == "{":
                es = te + 2
                ee = match_brace(toks, es)
            out.append((i + 1, j - 1, j, te, es, ee))
    return out
