"""E-MIR: run the mirfacts driver over /repo's current tree (cached by content hash) and query the facts."""
import json, os, subprocess, hashlib, fcntl, shutil, glob, time, sys, re
from collections import defaultdict, deque
from .common import VERIF, REPO, CACHE, AnalysisError

DRIVER = os.path.join(VERIF, "engines/mirfacts/target/release/mirfacts")
TARGET = os.path.join(CACHE, "target-nightly")
# workspace packages analysed (cargo -p names) and the crate names they produce
PACKAGES = ["sway-types", "sway-utils", "sway-error", "sway-features", "sway-ast", "sway-parse",
            "sway-ir", "sway-core", "swayfmt", "forc-util", "forc-pkg", "forc-test", "sway-lsp", "forc-fmt"]
CRATES = ["sway_types", "sway_utils", "sway_error", "sway_features", "sway_ast", "sway_parse",
          "sway_ir", "sway_core", "swayfmt", "forc_util", "forc_pkg", "forc_test", "sway_lsp", "forc_fmt"]
SRC_DIRS = ["sway-types", "sway-utils", "sway-error", "sway-features", "sway-ast", "sway-parse", "sway-ir",
            "sway-core", "swayfmt", "forc-util", "forc-pkg", "forc-test", "sway-lsp", "forc-plugins/forc-fmt",
            "forc-plugins/forc-lsp", "forc-plugins/forc-doc", "forc"]


PKG_DIR = {"forc-fmt": "forc-plugins/forc-fmt", "sway-ir-macros": "sway-ir/sway-ir-macros"}
EXTRA_PKGS = ["sway-ir-macros", "forc-tracing", "sway-lsp-test-utils"]  # hashed as dependencies, not analysed


def _pkg_dir(pkg):
    d = PKG_DIR.get(pkg, pkg)
    if os.path.isdir(os.path.join(REPO, d)):
        return d
    for cand in (f"sway-lsp/{pkg}", f"forc-plugins/{pkg}", f"test/{pkg}"):
        if os.path.isdir(os.path.join(REPO, cand)):
            return cand
    return None


def _dir_hash(d, exclude_sub=()):
    h = hashlib.sha256()
    files = []
    for root, dirs, fs in os.walk(os.path.join(REPO, d)):
        dirs[:] = [x for x in dirs if x not in ("target", "tests", "test_data", "benches", ".git")
                   and os.path.relpath(os.path.join(root, x), REPO) not in exclude_sub]
        for f in fs:
            if f.endswith((".rs", ".toml")):
                files.append(os.path.join(root, f))
    for f in sorted(files):
        h.update(os.path.relpath(f, REPO).encode())
        try:
            h.update(open(f, "rb").read())
        except OSError:
            pass
    return h.hexdigest()


def crate_keys():
    """package -> content key covering its own sources, its workspace dependencies (transitively), the lock file,
    the root manifest and the driver. A crate's facts are reusable exactly when its key is unchanged."""
    base = hashlib.sha256()
    for f in (os.path.join(REPO, "Cargo.toml"), os.path.join(REPO, "Cargo.lock"),
              os.path.join(VERIF, "engines/mirfacts/src/main.rs")):
        try:
            base.update(open(f, "rb").read())
        except OSError:
            pass
    pkgs = PACKAGES + EXTRA_PKGS
    dirs = {p: _pkg_dir(p) for p in pkgs}
    nested = {d for d in dirs.values() if d}
    own, deps = {}, {}
    for p in pkgs:
        d = dirs[p]
        if d is None:
            own[p], deps[p] = "missing", []
            continue
        own[p] = _dir_hash(d, exclude_sub={x for x in nested if x != d and x.startswith(d + "/")})
        try:
            toml = open(os.path.join(REPO, d, "Cargo.toml")).read()
        except OSError:
            toml = ""
        deps[p] = sorted(q for q in pkgs if q != p and re.search(r"(?m)^" + re.escape(q) + r"(\.workspace)?\s*=", toml))
    keys = {}

    def key(p, stack=()):
        if p in keys:
            return keys[p]
        h = hashlib.sha256(base.digest())
        h.update(own[p].encode())
        for q in deps[p]:
            if q not in stack:
                h.update(key(q, stack + (p,)).encode())
        keys[p] = h.hexdigest()[:24]
        return keys[p]
    for p in pkgs:
        key(p)
    return keys


def tree_hash():
    ks = crate_keys()
    return hashlib.sha256("".join(f"{p}={ks[p]};" for p in sorted(ks)).encode()).hexdigest()[:24]


def sysroot():
    return subprocess.check_output(["rustc", "+nightly", "--print", "sysroot"], text=True).strip()


def ensure_facts(force=False, log=True):
    """Return a directory with <crate>.jsonl for every crate in CRATES, built from /repo as it is now.
    Fact files of crates whose content key is unchanged are reused from an earlier extraction; the driver is re-run
    (member fingerprints deleted, so cargo cannot skip it) for the others."""
    keys = crate_keys()
    hsh = hashlib.sha256("".join(f"{p}={keys[p]};" for p in sorted(keys)).encode()).hexdigest()[:24]
    fdir = os.path.join(CACHE, "facts", hsh)
    ok = os.path.join(fdir, ".ok")
    if os.environ.get("VERIF_FORCE_FACTS") == "1" and not os.environ.get("VERIF_FACTS_FORCED_ONCE"):
        force = True
        os.environ["VERIF_FACTS_FORCED_ONCE"] = "1"
    if os.path.exists(ok) and not force:
        try:
            os.utime(fdir)  # keep the facts of the tree in use from being pruned as "old"
        except OSError:
            pass
        return fdir
    os.makedirs(CACHE, exist_ok=True)
    if not os.path.exists(DRIVER):
        raise AnalysisError(f"driver not built: {DRIVER} (run ./setup.sh)")
    with open(os.path.join(CACHE, "lock"), "w") as lk:
        fcntl.flock(lk, fcntl.LOCK_EX)
        if os.path.exists(ok) and not force:
            return fdir
        # extract into a private directory and move the files into place one by one (atomic per file), so that a concurrent
        # reader of the same tree's facts (another check running in parallel) never sees a missing or half-written file
        final_dir = fdir
        fdir = final_dir + f".tmp-{os.getpid()}"
        shutil.rmtree(fdir, ignore_errors=True)
        os.makedirs(fdir)
        # reuse per-crate fact files with the same key
        todo = []
        olds = [d for d in sorted(glob.glob(os.path.join(CACHE, "facts", "*")), key=os.path.getmtime, reverse=True)
                if d != fdir and ".tmp-" not in d and os.path.exists(os.path.join(d, ".ok"))]
        for pkg, crate in zip(PACKAGES, CRATES):
            got = False
            if not force:
                for d in olds:
                    kf = os.path.join(d, crate + ".key")
                    if os.path.exists(kf) and open(kf).read().strip() == keys[pkg] and os.path.exists(os.path.join(d, crate + ".jsonl")):
                        shutil.copy(os.path.join(d, crate + ".jsonl"), os.path.join(fdir, crate + ".jsonl"))
                        got = True
                        break
            if not got:
                todo.append(pkg)
        t0 = time.time()
        if todo:
            # cargo's freshness cache would skip the wrapper: drop the fingerprints of the crates to (re)analyse
            for c in todo + ["sway-ir-macros"]:
                for p in glob.glob(os.path.join(TARGET, "debug/.fingerprint", c + "-*")):
                    shutil.rmtree(p, ignore_errors=True)
            env = dict(os.environ)
            env.update(
                LD_LIBRARY_PATH=sysroot() + "/lib",
                RUSTC_WORKSPACE_WRAPPER=DRIVER,
                CARGO_TARGET_DIR=TARGET,
                RUSTFLAGS="-Zmir-opt-level=0 -Awarnings",
                VERIF_FACTS_DIR=fdir,
                CARGO_NET_OFFLINE="true",
            )
            cmd = ["cargo", "+nightly", "check", "--offline", "-q"]
            for p in todo:
                cmd += ["-p", p]
            if log:
                print(f"[mirfacts] extracting MIR facts for tree {hsh}: {len(todo)} crate(s) to analyse "
                      f"({', '.join(todo)}), {len(PACKAGES)-len(todo)} reused …", file=sys.stderr)
            r = subprocess.run(cmd, cwd=REPO, env=env, stdout=subprocess.PIPE, stderr=subprocess.STDOUT, text=True)
            if r.returncode != 0:
                shutil.rmtree(fdir, ignore_errors=True)
                raise AnalysisError("cargo +nightly check failed on the current tree:\n" + r.stdout[-3000:])
        missing = [c for c in CRATES if not os.path.exists(os.path.join(fdir, c + ".jsonl"))]
        if missing:
            shutil.rmtree(fdir, ignore_errors=True)
            raise AnalysisError(f"no fact file for crates {missing} (driver skipped?)")
        for pkg, crate in zip(PACKAGES, CRATES):
            open(os.path.join(fdir, crate + ".key"), "w").write(keys[pkg] + "\n")
        os.makedirs(final_dir, exist_ok=True)
        for fn_ in os.listdir(fdir):
            os.replace(os.path.join(fdir, fn_), os.path.join(final_dir, fn_))
        shutil.rmtree(fdir, ignore_errors=True)
        fdir = final_dir
        open(ok, "w").write(f"{time.time()-t0:.1f}s analysed={','.join(todo)}\n")
        if log and todo:
            print(f"[mirfacts] done in {time.time()-t0:.1f}s", file=sys.stderr)
        # prune old fact dirs (keep 6 newest)
        ds = sorted(glob.glob(os.path.join(CACHE, "facts", "*")), key=os.path.getmtime, reverse=True)
        for d in ds[6:]:
            if time.time() - os.path.getmtime(d) > 3 * 3600:  # never a directory another running check may be reading
                shutil.rmtree(d, ignore_errors=True)
    return fdir


# ---------------------------------------------------------------------------------
class Fn:
    __slots__ = ("d", "_succ", "_preds", "_idom")

    def __init__(self, d):
        self.d = d
        self._succ = None
        self._preds = None
        self._idom = None

    def __getattr__(self, k):
        try:
            return self.d[k]
        except KeyError:
            raise AttributeError(k)

    def get(self, k, default=None):
        return self.d.get(k, default)

    @property
    def bbs(self):
        return self.d["bbs"]

    def term(self, i):
        return self.d["bbs"][i]["t"]

    def succ(self):
        """Normal-flow successors (unwind edges ignored)."""
        if self._succ is None:
            s = []
            for bb in self.d["bbs"]:
                t = bb["t"]
                k = t["k"]
                if k == "switch":
                    x = [b for _, b in t["ts"]] + [t["else"]]
                elif k == "other":
                    x = list(t.get("ts", []))
                elif "t" in t:
                    x = [t["t"]]
                else:
                    x = []
                # drop cleanup targets
                s.append([b for b in dict.fromkeys(x) if not self.d["bbs"][b].get("cu")])
            self._succ = s
        return self._succ

    def preds(self):
        if self._preds is None:
            p = [[] for _ in self.d["bbs"]]
            for i, ss in enumerate(self.succ()):
                for j in ss:
                    p[j].append(i)
            self._preds = p
        return self._preds

    def reachable(self, start=0, avoid=()):
        seen = {start}
        q = [start]
        s = self.succ()
        while q:
            b = q.pop()
            for n in s[b]:
                if n not in seen and n not in avoid:
                    seen.add(n)
                    q.append(n)
        return seen

    def dominators(self):
        """idom by the simple iterative algorithm; returns dict bb -> set of dominators (incl. itself)."""
        if self._idom is None:
            n = len(self.d["bbs"])
            reach = self.reachable(0)
            order = []
            seen = set()
            def dfs(b):
                stack = [(b, iter(self.succ()[b]))]
                seen.add(b)
                while stack:
                    x, it = stack[-1]
                    adv = False
                    for y in it:
                        if y not in seen:
                            seen.add(y)
                            stack.append((y, iter(self.succ()[y])))
                            adv = True
                            break
                    if not adv:
                        order.append(x)
                        stack.pop()
            dfs(0)
            rpo = order[::-1]
            dom = {b: None for b in rpo}
            dom[0] = {0}
            changed = True
            preds = self.preds()
            while changed:
                changed = False
                for b in rpo[1:]:
                    ps = [dom[p] for p in preds[b] if p in dom and dom[p] is not None]
                    if not ps:
                        continue
                    new = set.intersection(*ps) | {b}
                    if new != dom[b]:
                        dom[b] = new
                        changed = True
            self._idom = {b: (d or {b}) for b, d in dom.items()}
        return self._idom

    def dominates(self, a, b):
        return a in self.dominators().get(b, ())

    def calls(self):
        """Yield (bb index, terminator) for call terminators in non-cleanup blocks."""
        for i, bb in enumerate(self.d["bbs"]):
            if bb.get("cu"):
                continue
            t = bb["t"]
            if t["k"] == "call":
                yield i, t

    def stmts(self):
        for i, bb in enumerate(self.d["bbs"]):
            if bb.get("cu"):
                continue
            for j, s in enumerate(bb["s"]):
                yield i, j, s

    def var(self, local):
        return self.d["vars"].get(str(local))

    def loc(self, t):
        return (t.get("file", self.d["file"]), t.get("ln", self.d["lo"]))


_PATH_RX = re.compile(r"[A-Za-z_]\w*(?:::[A-Za-z_]\w*)+")


def callee_id(t):
    return t.get("r") or t.get("f") or ""


class Facts:
    """All functions of the requested crates, a call graph and cone queries."""

    def __init__(self, crates=None, fdir=None):
        self.fdir = fdir or ensure_facts()
        self.fns = {}
        self.adts = {}
        self.by_name = defaultdict(list)
        self.loaded = []
        self.children = defaultdict(list)  # parent fn id -> closure ids
        self.impls = defaultdict(list)  # trait method id -> impl fn ids
        self.ext_trait_impls = defaultdict(list)  # self type (ADT path) -> impl fns of traits defined outside the workspace
        for c in crates or CRATES:
            self.load(c)

    def load(self, crate):
        if crate in self.loaded:
            return
        p = os.path.join(self.fdir, crate + ".jsonl")
        if not os.path.exists(p):
            raise AnalysisError(f"fact file missing: {p}")
        with open(p) as f:
            for ln in f:
                d = json.loads(ln)
                if "adt" in d:
                    self.adts[d["adt"]] = d
                    continue
                fn = Fn(d)
                self.fns[d["id"]] = fn
                self.by_name[d["name"]].append(fn)
                if d["kind"] == "closure":
                    self.children[d["parent"]].append(d["id"])
                if "impl_of" in d:
                    self.impls[d["impl_of"]].append(d["id"])
                    if d["impl_of"].split("::", 1)[0] not in CRATES and "self_ty" in d:
                        base = re.match(r"[&\s]*(?:mut\s+)?([A-Za-z_][\w:]*)", d["self_ty"])
                        if base:
                            self.ext_trait_impls[base.group(1)].append(d["id"])
        self.loaded.append(crate)

    def fn(self, name, crate=None):
        """Exactly one function by its crate-qualified readable name."""
        xs = [f for f in self.by_name.get(name, []) if crate is None or f.crate == crate]
        if len(xs) != 1:
            raise AnalysisError(f"anchor function {name!r}: found {len(xs)} definitions")
        return xs[0]

    def find(self, pattern, crate=None):
        rx = re.compile(pattern)
        return [f for f in self.fns.values() if rx.search(f.name) and (crate is None or f.crate == crate)]

    def edges(self, fn, over_approx_traits=True):
        """Callee ids of one function: resolved calls, fn items taken as values, its closures,
        and (over-approximation) every workspace impl of an unresolved/virtual trait method."""
        out = []
        for cid in self.children.get(fn.id, ()):
            out.append((cid, None))
        for bi, bb in enumerate(fn.bbs):
            if bb.get("cu"):
                continue
            t = bb["t"]
            ops = []
            if t["k"] == "call":
                cid = callee_id(t)
                if cid:
                    out.append((cid, t))
                if over_approx_traits and (t.get("unres") or t.get("virt")):
                    for iid in self.impls.get(t.get("f"), ()):
                        out.append((iid, t, "approx"))
                if over_approx_traits and cid not in self.fns and "<" in t.get("fn", ""):
                    # generic library code instantiated with workspace types can call back into the
                    # workspace only through impls of non-workspace traits for those types
                    for ty in set(_PATH_RX.findall(t["fn"])):
                        for iid in self.ext_trait_impls.get(ty, ()):
                            out.append((iid, t, "approx"))
                ops = t.get("a", [])
            for o in ops:
                if "fn" in o:
                    out.append((o.get("rfn") or o["fn"], t))
                    if over_approx_traits and "rfn" not in o:
                        for iid in self.impls.get(o["fn"], ()):
                            out.append((iid, t, "approx"))
            for s in bb["s"]:
                for o in s["r"].get("o", []):
                    if "fn" in o:
                        out.append((o.get("rfn") or o["fn"], s))
                        if over_approx_traits and "rfn" not in o:
                            for iid in self.impls.get(o["fn"], ()):
                                out.append((iid, s, "approx"))
                if "closure" in s["r"]:
                    out.append((s["r"]["closure"], s))
        return out

    def cone(self, roots, stop=None, crates=None, over_approx_traits=True, approx_ok=None):
        """reach(roots) inside the loaded facts. Returns dict id -> (parent id, site) for path reports.
        `stop(fn)` -> True keeps the function out of the cone."""
        seen = {}
        q = deque()
        for r in roots:
            rid = r.id if isinstance(r, Fn) else r
            seen[rid] = (None, None)
            q.append(rid)
        while q:
            x = q.popleft()
            fn = self.fns.get(x)
            if fn is None:
                continue
            for e in self.edges(fn, over_approx_traits):
                cid, site = e[0], e[1]
                if cid in seen:
                    continue
                cf = self.fns.get(cid)
                if cf is None:
                    continue
                if len(e) > 2 and approx_ok is not None and not approx_ok(cf):
                    continue
                if crates is not None and cf.crate not in crates:
                    continue
                if stop is not None and stop(cf):
                    continue
                seen[cid] = (x, site)
                q.append(cid)
        return seen

    def path_to(self, cone, fid):
        p = []
        while fid is not None:
            f = self.fns.get(fid)
            p.append(f.name if f else fid)
            fid = cone[fid][0]
        return " <- ".join(p)

    def external_callees(self, cone):
        ext = set()
        for fid in cone:
            fn = self.fns.get(fid)
            if not fn:
                continue
            for _, t in fn.calls():
                cid = callee_id(t)
                if cid and cid not in self.fns:
                    ext.add(t.get("rn") or t.get("fp"))
        return ext


# ---------------------------------------------------------------------------------
# small intra-procedural def-use helpers

def operand_locals(o):
    if "l" in o:
        ls = [o["l"]]
        for p in o.get("p", []):
            if isinstance(p, list) and p[0] == "i":
                ls.append(p[1])
        return ls
    return []


def defs_of(fn):
    """local -> list of (bb, idx|'t', kind, srcs(list of operands), node) for every assignment/call dest."""
    cached = fn.d.get("_defs")
    if cached is not None:
        return cached
    d = defaultdict(list)
    fn.d["_defs"] = d
    for bi, bb in enumerate(fn.bbs):
        for si, s in enumerate(bb["s"]):
            d[s["d"]["l"]].append((bi, si, s["r"]["k"], s["r"].get("o", []), s))
        t = bb["t"]
        if t["k"] == "call" and "d" in t:
            d[t["d"]["l"]].append((bi, "t", "call", t.get("a", []), t))
    return d


def fields_read(fn):
    """Set of (adt, variant, field) read or written through places in the function."""
    out = set()
    def place(o):
        for p in o.get("p", []) if "l" in o else []:
            if isinstance(p, list) and p[0] == "f":
                out.add((p[1], p[2], p[3]))
    for bb in fn.bbs:
        if bb.get("cu"):
            continue
        for s in bb["s"]:
            for o in s["r"].get("o", []):
                place(o)
        t = bb["t"]
        for o in t.get("o", []) + t.get("a", []):
            place(o)
    return out
