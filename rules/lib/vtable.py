"""Per-enum-variant tables extracted from `match` expressions of one function (E-TAB).

A table maps (Enum, Variant) -> rows; a row records the arm, the variant's pattern, which fields are bound to
which names, which of those names the arm body uses, and the arm's literal result when it has one."""
from . import tab
from .common import AnalysisError


class Row:
    def __init__(self, enum, variant, arm, pat, via_wild=False):
        self.enum, self.variant, self.arm, self.pat, self.via_wild = enum, variant, arm, pat, via_wild
        self.line = (pat or arm).get("l", arm.get("l", 0))

    def body(self):
        return self.arm["body"]

    def field_binders(self, vfields):
        """field name -> list of binder names (possibly nested)"""
        out = {}
        p = self.pat
        if p is None:
            return out
        if p["k"] == "PStruct":
            for f in p["fields"]:
                out[f["name"]] = (tab.binders(f["pat"]), f["pat"])
        elif p["k"] == "PTupleStruct":
            st = tab.field_status(p, vfields)
            elems = p["elems"]
            ri = next((i for i, e in enumerate(elems) if e.get("k") == "PRest"), None)
            n = len(vfields)
            for i, f in enumerate(vfields):
                if ri is None:
                    j = i
                elif i < ri:
                    j = i
                elif i >= n - (len(elems) - ri - 1):
                    j = i - (n - len(elems))
                else:
                    continue
                if 0 <= j < len(elems):
                    out[f["name"]] = (tab.binders(elems[j]), elems[j])
        return out

    def used_fields(self, vfields):
        """Names of the variant's fields whose binder is used in the arm body (or guard)."""
        used = tab.idents_used(self.body())
        if self.arm.get("guard"):
            used |= tab.idents_used(self.arm["guard"])
        res = set()
        for fname, (bs, _) in self.field_binders(vfields).items():
            if any(b in used for b in bs):
                res.add(fname)
        return res

    def literal(self):
        b = self.body()
        while b.get("k") == "Block" and len(b["stmts"]) == 1:
            b = b["stmts"][0]
        if b.get("k") == "Lit" and b.get("t") == "bool":
            return b["v"]
        if b.get("k") == "Macro" and b["name"] == "vec" and b.get("args") == []:
            return "vec![]"
        if b.get("k") == "Path" and b["path"] == "None":
            return "None"
        if b.get("k") == "Tuple" and not b["elems"]:
            return "()"
        return None


def _variant_of(path, enums, self_enum):
    segs = path.split("::")
    if len(segs) >= 2:
        e, v = segs[-2], segs[-1]
        if e == "Self" and self_enum:
            e = self_enum
        if e in enums and v in enums[e]:
            return e, v
    return None


def build(fn_node, enums, self_enum=None, nested=None):
    """enums: {EnumName: {VariantName: variant_def}}. nested: {(Enum, Variant): InnerEnum} for wrapper variants
    such as (InstOp, FuelVm) -> FuelVmInstruction. Returns (rows, wild) where rows[(E, V)] = [Row] and
    wild[E] = [arm] lists catch-all arms at the level of enum E."""
    nested = nested or {}
    rows, wild = {}, {}
    for m in tab.matches_in(fn_node["body"] if "body" in fn_node else fn_node):
        level = set()
        arm_alts = []
        for a in m["arms"]:
            alts = tab.pat_variants(a["pat"])
            arm_alts.append((a, alts))
            for v, p in alts:
                ev = _variant_of(v, enums, self_enum)
                if ev:
                    level.add(ev[0])
        if not level:
            continue
        for a, alts in arm_alts:
            for v, p in alts:
                ev = _variant_of(v, enums, self_enum)
                if ev is None:
                    if v == "_" and not a.get("guard"):
                        for e in level:
                            wild.setdefault(e, []).append(a)
                    continue
                inner = nested.get(ev)
                if inner:
                    # wrapper variant: look at the single payload pattern
                    elems = p.get("elems", []) if p["k"] == "PTupleStruct" else []
                    sub = elems[0] if elems else None
                    sub_alts = tab.pat_variants(sub) if sub else [("_", None)]
                    named = [(sv, sp) for sv, sp in sub_alts if _variant_of(sv, enums, inner)]
                    if named:
                        for sv, sp in named:
                            e2 = _variant_of(sv, enums, inner)
                            rows.setdefault(e2, []).append(Row(e2[0], e2[1], a, sp))
                        continue
                    # `Wrapper(x)` / `Wrapper(_)`: nested match on x in the body, or a catch-all for the inner enum
                    has_nested = False
                    for m2 in tab.matches_in(a["body"]):
                        for a2 in m2["arms"]:
                            for v2, _ in tab.pat_variants(a2["pat"]):
                                ev2 = _variant_of(v2, enums, inner)
                                if ev2 and ev2[0] == inner:
                                    has_nested = True
                    if not has_nested:
                        wild.setdefault(inner, []).append(a)
                    rows.setdefault(ev, []).append(Row(ev[0], ev[1], a, p))
                else:
                    rows.setdefault(ev, []).append(Row(ev[0], ev[1], a, p))
    return rows, wild


def enum_variants(tree, name):
    e = tab.enum(tree, name)
    return {v["name"]: v for v in e["variants"]}
