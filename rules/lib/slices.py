"""Backward value slices over the MIR facts of one function (flow-insensitive, field-insensitive on locals)."""
from . import mir


def backward_slice(fn, operand, max_nodes=400):
    """Return dict(leaves=set of leaf descriptors, ops=set of binary ops seen, calls=list of call terminators on the slice).
    Leaf descriptors: ('param', index) | ('const', text) | ('call', callee path) | ('unknown', local)."""
    defs = mir.defs_of(fn)
    leaves, ops, calls = set(), set(), []
    seen = set()
    work = [operand]
    n = 0
    while work and n < max_nodes:
        o = work.pop()
        n += 1
        if "c" in o:
            leaves.add(("const", o["c"]))
            continue
        l = o["l"]
        # index operands inside projections are part of the value's provenance only for Index; ignore here
        fkey = (l, tuple(pr[3] for pr in o.get("p", []) if isinstance(pr, list) and pr[0] == "f"))
        if fkey in seen:
            continue
        seen.add(fkey)
        ds = [d for d in defs.get(l, []) if not fn.bbs[d[0]].get("cu")]
        if fn.kind == "closure" and l == 1:
            leaves.add(("capture", _capture_name(fn, o)))
            continue
        if 1 <= l <= fn.nargs and not ds:
            leaves.add(("param", l))
            continue
        if not ds:
            # closure captures: _1 is the environment
            if fn.kind == "closure" and l == 1:
                leaves.add(("capture", _capture_name(fn, o)))
            else:
                leaves.add(("unknown", l))
            continue
        if 1 <= l <= fn.nargs:
            leaves.add(("param", l))
        # one level of tuple-field sensitivity: `_x.N` where `_x = (a, b, ..)` follows element N only
        fld = None
        for pr in o.get("p", []):
            if isinstance(pr, list) and pr[0] == "f" and pr[1] == "" and pr[3].isdigit():
                fld = int(pr[3])
                break
            if pr != "*" and not (isinstance(pr, list) and pr[0] == "dc"):
                break
        for bi, si, k, srcs, node in ds:
            if fld is not None and k == "agg" and node["r"].get("adt") == "(tuple)" and fld < len(srcs):
                work.append(srcs[fld])
                continue
            if k == "call":
                nm = node.get("rn") or node.get("fp", "")
                calls.append(node)
                if TRANSPARENT_CALLS.search(nm):
                    for a in srcs[:1]:
                        work.append(a)
                else:
                    leaves.add(("call", nm) if fld is None else ("callfield", nm, fld))
                continue
            if k == "bin":
                ops.add(node["r"]["op"])
            for s in srcs:
                work.append(s)
    return dict(leaves=leaves, ops=ops, calls=calls, locals=seen)


import re
TRANSPARENT_CALLS = re.compile(r"(Deref(Mut)?>::deref(_mut)?|::clone|::copied|::cloned|::into|::from|Option::<T>::map_or|Option::<T>::unwrap_or)$")


def _capture_name(fn, o):
    for p in o.get("p", []):
        if isinstance(p, list) and p[0] == "f":
            up = fn.d.get("upvars", {})
            try:
                return up.get(str(int(p[3])), p[3])
            except ValueError:
                return p[3]
    return "?"
