"""PANIC(cone): potentially panicking sites of a set of functions, with machine-checked discharge idioms."""
import re, os
from collections import defaultdict
from .common import VERIF
from . import mir

_API = None
IGNORED_ASSERTS = ("MisalignedPointerDereference", "NullPointerDereference", "InvalidEnumConstruction",
                   "ResumedAfterReturn", "ResumedAfterPanic", "ResumedAfterDrop")


def api():
    global _API
    if _API is None:
        _API = []
        for ln in open(os.path.join(VERIF, "spec/panic_api.txt")):
            ln = ln.rstrip("\n")
            if not ln or ln.startswith("#"):
                continue
            label, rx = ln.split("\t", 1)
            _API.append((label, re.compile(rx)))
    return _API


def classify_call(t):
    for nm in (t.get("rn"), t.get("fp")):
        if not nm:
            continue
        for label, rx in api():
            if rx.search(nm):
                return label
    return None


def origin_var(fn, o, depth=8):
    """Best-effort user-visible name of the variable an operand derives from (through refs/derefs/copies)."""
    defs = mir.defs_of(fn)
    seen = set()
    while depth > 0 and "l" in o:
        l = o["l"]
        v = fn.var(l)
        fld = [p[3] for p in o.get("p", []) if isinstance(p, list) and p[0] == "f"]
        if v:
            return v + ("." + ".".join(fld) if fld else "")
        if l in seen:
            break
        seen.add(l)
        ds = defs.get(l, [])
        if len(ds) != 1:
            if l == 1 and fn.kind == "closure" and fld:
                up = fn.d.get("upvars", {}).get(str(_field_index(fn, o)))
                if up:
                    return up
            break
        _, _, k, srcs, node = ds[0]
        if k in ("use", "ref", "cast", "rawptr") and srcs:
            nxt = srcs[0]
            if fld and "l" in nxt:
                # remember the field path
                pass
            o = nxt
        elif k == "call" and srcs and re.search(r"(Deref(Mut)?(>)?::deref(_mut)?|::as_ref|::as_mut|::as_str|::as_slice|::as_mut_slice|::borrow|::borrow_mut|::clone)$",
                                                  node.get("rn") or node.get("fp", "")):
            o = srcs[0]
        else:
            break
        depth -= 1
    if "l" in o and o["l"] == 1 and fn.kind == "closure":
        return "<captured>"
    return None


def _field_index(fn, o):
    return None


def sites(F, cone, include_expansion_fns=False):
    """All potentially panicking sites in the functions of `cone` (ids). Returns list of dicts."""
    out = []
    for fid in cone:
        fn = F.fns.get(fid)
        if fn is None:
            continue
        if fn.exp and not include_expansion_fns:
            # derive-generated function (Debug/Clone/Serialize...): trusted
            continue
        counts = defaultdict(int)
        for bi, bb in enumerate(fn.bbs):
            if bb.get("cu"):
                continue
            t = bb["t"]
            label = None
            recv = None
            if t["k"] == "assert":
                m = t["msg"]
                if m.startswith(IGNORED_ASSERTS):
                    continue
                label = "assert:" + m.split(" ")[0]
            elif t["k"] == "call":
                label = classify_call(t)
                if label and label != "panic" and t.get("a"):
                    recv = origin_var(fn, t["a"][0])
            if not label:
                continue
            base = f"{label}({recv})" if recv else label
            counts[base] += 1
            file, line = fn.loc(t)
            out.append(dict(fn=fn, bb=bi, t=t, label=label, recv=recv, file=file, line=line,
                            key=f"{fn.name}|{base}#{counts[base]}"))
    return out


# ---- discharge idioms --------------------------------------------------------------------------

def _single_def(fn, local):
    ds = mir.defs_of(fn).get(local, [])
    return ds[0] if len(ds) == 1 else None


def trace_value(fn, o, depth=6):
    """Follow copies/moves to the defining node of an operand. Returns ('const', repr) | ('call', t) | ('stmt', s) | None"""
    while depth > 0:
        if "c" in o:
            return ("const", o)
        d = _single_def(fn, o["l"])
        if d is None or o.get("p"):
            return None
        bi, si, k, srcs, node = d
        if k == "use" and srcs:
            o = srcs[0]
            depth -= 1
            continue
        if k == "call":
            return ("call", node)
        return ("stmt", node)
    return None


def discharge(F, s):
    """Return a reason string when the site cannot panic by a recognised idiom, else None."""
    fn, t = s["fn"], s["t"]
    if s["label"] == "index":
        g = t.get("fn", "")
        # `x[..]` (RangeFull) is total for str/String/Vec/slices
        if re.search(r"Index(Mut)?<core::ops::range::RangeFull>", g):
            return "index by RangeFull is total"
    if s["label"].startswith("assert:Overflow(Add)") or s["label"].startswith("assert:Overflow(Sub)"):
        # the assert guards `_x = AddWithOverflow(a, b)`; find the statement computing the tuple
        cond = t["o"][0]
        # cond is (tuple).1 ; the tuple local is assigned by a bin op in the same block
        bb = fn.bbs[s["bb"]]
        for st in bb["s"]:
            r = st["r"]
            if r["k"] == "bin" and st["d"]["l"] == cond.get("l"):
                a, b = r["o"]
                ty = r["ty"]
                if r["op"].startswith("Add") and ty == "usize":
                    # len() + small constant cannot overflow: lengths are <= isize::MAX
                    for x, y in ((a, b), (b, a)):
                        if "c" in y and re.match(r"^\d{1,6}_usize$|^const \d{1,6}_usize$", y["c"].strip()):
                            v = trace_value(fn, x)
                            if v and v[0] == "call" and re.search(r"::len$", v[1].get("fp", "")):
                                return "len() + small constant cannot overflow usize"
                    for x, y in ((a, b), (b, a)):
                        if "c" in y and re.match(r"^(const )?\d{1,6}_usize$", y["c"].strip()) and "l" in x:
                            d = _single_def(fn, x["l"])
                            if d and d[2] == "use" and d[3]:
                                src = d[3][0]
                                d2 = _single_def(fn, src["l"]) if "l" in src and not src.get("p") else None
                                if d2 and d2[2] == "cast" and d2[4]["r"].get("ck") == "IntToInt" and d2[3] and "l" in d2[3][0] \
                                        and fn.locals[d2[3][0]["l"]] in ("u8", "u16", "u32"):
                                    return "u32-or-narrower value widened to usize + small constant cannot overflow (64-bit usize)"
                                # offset yielded by CharIndices (< len <= isize::MAX)
                                hops = 0
                                while "l" in src and not src.get("p") and hops < 4:
                                    hops += 1
                                    dd = _single_def(fn, src["l"])
                                    if not (dd and dd[2] == "use" and dd[3]):
                                        break
                                    src = dd[3][0]
                                flds = [p_[3] for p_ in src.get("p", []) if isinstance(p_, list) and p_[0] == "f"]
                                d3 = _single_def(fn, src["l"]) if "l" in src else None
                                if flds and flds[-1] == "0" and d3 and d3[2] == "call" and "CharIndices" in (d3[4].get("rn") or ""):
                                    return "char_indices offset (< len <= isize::MAX) + small constant cannot overflow usize"
                    va, vb = trace_value(fn, a), trace_value(fn, b)
                    if (va and vb and va[0] == "call" and vb[0] == "call"
                            and re.search(r"::len$", va[1].get("fp", "")) and re.search(r"::len$", vb[1].get("fp", ""))):
                        return "len() + len() cannot overflow usize (each <= isize::MAX)"
    return None


# ---- guard idioms (dominating checks) ------------------------------------------------------------

def root_local(fn, o, depth=10):
    """Follow refs / derefs / copies / Deref::deref / as_str back to a root local or constant.
    Returns ('l', local) or ('c', text) or None."""
    defs = mir.defs_of(fn)
    while depth > 0:
        depth -= 1
        if "c" in o:
            return ("c", const_text(fn, o))
        l = o["l"]
        if fn.var(l) is not None and not [p for p in o.get("p", []) if p != "*"]:
            return ("l", l)
        ds = defs.get(l, [])
        if len(ds) != 1:
            return ("l", l)
        _, _, k, srcs, node = ds[0]
        if k in ("use", "ref", "rawptr") and srcs and not [p for p in srcs[0].get("p", []) if p != "*"]:
            o = srcs[0]
            continue
        if k == "call" and srcs and re.search(
                r"(Deref(Mut)?>::deref(_mut)?|::deref|::as_ref|::as_str|::as_slice|::borrow|String::as_str)$",
                node.get("rn") or node.get("fp", "")):
            o = srcs[0]
            continue
        return ("l", l)
    return None


def const_text(fn, o):
    """Text of a constant operand; resolves `promoted[N]` through the function's promoted bodies."""
    c = o.get("c", "")
    m = re.search(r"promoted\[(\d+)\]$", c)
    if m:
        body = fn.d.get("promoted", [])
        i = int(m.group(1))
        if i < len(body):
            return "promoted:" + ";".join(_rv_text(s["r"]) for s in body[i])
    return c


def _rv_text(r):
    if r["k"] == "agg":
        return f'{r.get("adt","")}::{r.get("var","")}(' + ",".join(x.get("c", "_" + str(x.get("l"))) for x in r["o"]) + ")"
    return r["k"] + "(" + ",".join(x.get("c", "_" + str(x.get("l"))) for x in r.get("o", [])) + ")"


def _lit(s):
    """Inner text of a char/str literal constant as printed by rustc (`const "("`, `const '('`)."""
    m = re.search(r"""(?:const )?(?:b?"((?:[^"\\]|\\.)*)"|'((?:[^'\\]|\\.)*)')""", s)
    if m:
        return m.group(1) if m.group(1) is not None else m.group(2)
    return None


def same_value(fn, a, b):
    ra, rb = root_local(fn, a), root_local(fn, b)
    if ra is None or rb is None:
        return False
    if ra[0] == "l" and rb[0] == "l":
        return ra[1] == rb[1]
    if ra[0] == "c" and rb[0] == "c":
        la, lb = _lit(ra[1]), _lit(rb[1])
        if la is not None or lb is not None:
            return la == lb
        # the same named constant item (`Self::PREFIX`, a local `const BRANCH`)
        return ra[1] == rb[1] and "promoted" not in ra[1] and "::" in ra[1]
    return False


def switch_guards(fn):
    """For each switch on a bool computed by a call, yield (bb_of_switch, call_terminator, true_succ, false_succ)."""
    res = []
    for bi, bb in enumerate(fn.bbs):
        t = bb["t"]
        if t["k"] != "switch" or bb.get("cu"):
            continue
        v = trace_value(fn, t["o"][0])
        neg = False
        # `!x`
        while v and v[0] == "stmt" and v[1]["r"]["k"] == "un" and v[1]["r"]["op"] == "Not":
            neg = not neg
            v = trace_value(fn, v[1]["r"]["o"][0])
        if not v or v[0] != "call":
            continue
        if len(t["ts"]) != 1 or t["ts"][0][0] != "0":
            continue
        false_s, true_s = t["ts"][0][1], t["else"]
        if neg:
            false_s, true_s = true_s, false_s
        res.append((bi, v[1], true_s, false_s))
    return res


def prefix_guard(F, s):
    """`&x[P.len()..]` dominated by the success edge of `x.starts_with(P)` / `x.find(P) == Some(0)`."""
    fn, t = s["fn"], s["t"]
    if s["label"] != "index" or len(t.get("a", [])) != 2:
        return None
    if not re.search(r"for str>::index$|<alloc::string::String as core::ops::index::Index<I>>::index$", t.get("rn", "")):
        return None
    rng = trace_value(fn, t["a"][1])
    if not rng or rng[0] != "stmt" or rng[1]["r"].get("adt") != "core::ops::range::RangeFrom":
        return None
    start = trace_value(fn, rng[1]["r"]["o"][0])
    if not start or start[0] != "call" or not re.search(r"::len$", start[1].get("fp", "")):
        return None
    plen_recv = start[1]["a"][0]
    recv = t["a"][0]
    dom = fn.dominators()
    for bi, call, true_s, false_s in switch_guards(fn):
        name = call.get("rn") or call.get("fp", "")
        matched = None
        if re.search(r"core::str::<impl str>::starts_with$", name):
            x, p = call["a"][0], call["a"][1]
            matched = true_s
        elif re.search(r"core::cmp::PartialEq::(eq|ne)$|<core::option::Option<T> as core::cmp::PartialEq>::(eq|ne)$", name):
            ops = call["a"]
            found = None
            other = None
            for i in (0, 1):
                v = trace_through_ref(fn, ops[i])
                if v and v[0] == "call" and re.search(r"core::str::<impl str>::find$", v[1].get("fp", "")):
                    found, other = v[1], ops[1 - i]
            if not found:
                continue
            oc = root_local(fn, other)
            if not oc or oc[0] != "c" or not re.search(r"Option::Some\((const )?0_usize\)", oc[1]):
                continue
            x, p = found["a"][0], found["a"][1]
            matched = true_s if name.endswith("eq") else false_s
        else:
            continue
        if matched is None or matched == (false_s if matched == true_s else true_s):
            continue
        if not same_value(fn, x, recv) or not same_value(fn, p, plen_recv):
            continue
        # the site must only be reachable through the matched edge
        other_edge = false_s if matched == true_s else true_s
        if matched in dom.get(s["bb"], ()) and other_edge not in dom.get(s["bb"], ()) and fn.preds()[matched] == [bi]:
            return f"slice start is the length of a prefix checked at {fn.file}:{call.get('ln')}"
    return None


def trace_through_ref(fn, o, depth=6):
    """Like trace_value but looks through `&local` / `&*local`."""
    while depth > 0:
        depth -= 1
        if "c" in o:
            return ("const", o)
        d = _single_def(fn, o["l"])
        if d is None:
            return None
        bi, si, k, srcs, node = d
        if k in ("use", "ref") and srcs and not [p for p in srcs[0].get("p", []) if p != "*"]:
            o = srcs[0]
            continue
        if k == "call":
            return ("call", node)
        return ("stmt", node)
    return None


INDEX_SOURCES = re.compile(
    r"(Peekable<I> as core::iter::traits::iterator::Iterator>::next|Peekable::<I>::(peek|next_if|next_if_eq)|"
    r"CharIndices<'a> as core::iter::traits::iterator::Iterator>::next|"
    r"core::str::<impl str>::(len|find|rfind)|alloc::string::String::len|sway_types::span::Span::(start|end))$")


def width_add_guard(F, s):
    """`offset + width` on usize where width is char::len_utf8() or a constant <= 8 and offset is an index into a string
    (yielded by a char-index iterator / len / find / a Span bound) cannot overflow: offsets are <= isize::MAX."""
    fn, t = s["fn"], s["t"]
    if not s["label"].startswith("assert:Overflow(Add)"):
        return None
    cond = t["o"][0]
    for st in fn.bbs[s["bb"]]["s"]:
        r = st["r"]
        if r["k"] == "bin" and st["d"]["l"] == cond.get("l") and r["ty"] == "usize":
            for x, y in ((r["o"][0], r["o"][1]), (r["o"][1], r["o"][0])):
                small = False
                if "c" in y:
                    m = re.match(r"^(?:const )?(\d+)_usize$", y["c"].strip())
                    small = bool(m and int(m.group(1)) <= 8)
                else:
                    v = trace_value(fn, y)
                    small = bool(v and v[0] == "call" and (v[1].get("fp", "")).endswith("<impl char>::len_utf8"))
                if not small or "l" not in x:
                    continue
                sl = _slice(fn, x)
                srcs = [l for l in sl["leaves"] if l[0] in ("call", "callfield")]
                if srcs and all(INDEX_SOURCES.search(l[1]) for l in srcs) and \
                        not any(l[0] in ("param", "capture", "unknown") for l in sl["leaves"]) and \
                        all(op.startswith("Add") for op in sl["ops"]):
                    return "string offset (<= isize::MAX) + char width / small constant cannot overflow usize"
    return None


def _slice(fn, o):
    from . import slices
    return slices.backward_slice(fn, o)


def digit_radix_guard(F, s):
    """char::to_digit / is_digit / from_digit panic only for radix > 36."""
    if s["label"] != "char_digit":
        return None
    fn, t = s["fn"], s["t"]
    args = t.get("a", [])
    if len(args) >= 2:
        r = args[1]
        v = r if "c" in r else None
        if v is None:
            tv = trace_value(fn, r)
            v = tv[1] if tv and tv[0] == "const" else None
        if v:
            m = re.match(r"^(?:const )?(\d+)_u32$", v["c"].strip())
            if m and int(m.group(1)) <= 36:
                return f"radix {m.group(1)} <= 36"
    return None


_discharge0 = discharge


def discharge(F, s):  # noqa: F811
    return _discharge0(F, s) or prefix_guard(F, s) or width_add_guard(F, s) or digit_radix_guard(F, s)


TRANSPARENT = re.compile(
    r"(Deref(Mut)?>::deref(_mut)?|::into_owned|::as_ref|::as_str|::as_slice|::borrow|::clone|::to_owned|::to_string|"
    r"Index<I>>::index|Index<I> for str>::index|::into|::from|::unwrap_or_default|::copied|::cloned)$")


def root_call(fn, o, depth=12):
    """First non-transparent call on the backward def chain of an operand: returns the call terminator,
    ('var', name) when the chain ends in a named local/argument, or None."""
    defs = mir.defs_of(fn)
    while depth > 0:
        depth -= 1
        if "c" in o:
            return ("const", o["c"])
        l = o["l"]
        ds = defs.get(l, [])
        if len(ds) != 1:
            return ("var", fn.var(l) or f"_{l}")
        _, _, k, srcs, node = ds[0]
        if k in ("use", "ref", "cast", "rawptr") and srcs:
            o = srcs[0]
            continue
        if k == "call":
            nm = node.get("rn") or node.get("fp", "")
            if TRANSPARENT.search(nm) and srcs:
                o = srcs[0]
                continue
            return ("call", node)
        return ("var", fn.var(l) or f"_{l}")
    return None
