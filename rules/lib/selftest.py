"""Thorough tier: test the checker both ways. Each mutant of selftest/<ID>.json is one semantic edit of the tree that must
make a named rule fire. Mutants are applied to a scratch copy of /repo under /var/tmp (never to /repo) and the property's
rules are re-run on it in a sub-process with VERIF_REPO pointing at the copy. A mutant whose `old` text is no longer in the
tree is reported as skipped. A mutant that is not detected is an ANALYSIS-ERROR (the checker regressed), never a VIOLATION."""
import json, os, shutil, subprocess, sys, tempfile
from .common import VERIF, REPO, AnalysisError

EXCLUDE = ["target", ".git", "test/src/e2e_vm_tests", "docs", "examples", "test/src/sdk-harness"]


def scratch_copy():
    base = "/var/tmp/verif-scratch"
    os.makedirs(base, exist_ok=True)
    d = tempfile.mkdtemp(prefix="repo-", dir=base)
    cmd = ["rsync", "-a", "--delete"] + [f"--exclude=/{e}" for e in EXCLUDE] + [REPO + "/", d + "/"]
    r = subprocess.run(cmd, capture_output=True, text=True)
    if r.returncode != 0:
        shutil.rmtree(d, ignore_errors=True)
        raise AnalysisError("selftest: rsync of /repo failed: " + r.stderr[-500:])
    return d


def _child(rep, d):
    env = dict(os.environ, VERIF_REPO=d, VERIF_SELFTEST_CHILD="1", VERIF_TIER="quick")
    env.pop("VERIF_FORCE_FACTS", None)
    env.pop("VERIF_FACTS_FORCED_ONCE", None)
    r = subprocess.run([sys.executable, os.path.join(VERIF, "rules/run.py"), rep.pid], capture_output=True, text=True, env=env)
    fired = [ln.split("\t")[0].replace("SELFTEST-FAILED-OB ", "") for ln in r.stdout.splitlines() if ln.startswith("SELFTEST-FAILED-OB ")]
    return r, fired


def _run_patch(rep, d, m):
    """a confirmed seeded change (seeded/<ID>/patch.diff) applied to the scratch copy"""
    pf = os.path.join(VERIF, m["patch"])
    a = subprocess.run(["patch", "-p1", "-s", "-f", "-d", d, "-i", pf], capture_output=True, text=True)
    try:
        if a.returncode != 0:
            return dict(name=m["name"], status="skipped", why="patch does not apply: " + (a.stdout + a.stderr)[-200:])
        r, fired = _child(rep, d)
        want = m["expect"]
        if want == "MISSED":  # a recorded miss: the seed is known not to be caught; report if that changes
            return dict(name=m["name"], status="known-miss" if not fired else "now-detected", fired=sorted(set(fired))[:6])
        hit = any(f.startswith(want) for f in fired)
        if "ANALYSIS-ERROR" in r.stdout and not hit:
            # a confirmed seed compiles: an analysis error on it means a rule could not read a legal program (and hid the other rules' reports)
            return dict(name=m["name"], status="MISSED", expect=want, fired=[], why="analysis error on a compiling seed: " + r.stdout.strip().splitlines()[-1][:200])
        return dict(name=m["name"], status="detected" if hit else "MISSED", expect=want, fired=sorted(set(fired))[:6])
    finally:
        subprocess.run(["patch", "-p1", "-s", "-f", "-R", "-d", d, "-i", pf], capture_output=True, text=True)


def run(rep):
    spec = os.path.join(VERIF, "selftest", rep.pid + ".json")
    if not os.path.exists(spec):
        rep.selftest = dict(mutants=0, note="no selftest/%s.json" % rep.pid)
        return
    mutants = json.load(open(spec))
    results = []
    d = scratch_copy()
    try:
        for m in mutants:
            if "patch" in m:
                results.append(_run_patch(rep, d, m))
                continue
            path = os.path.join(d, m["file"])
            if not os.path.exists(path):
                results.append(dict(name=m["name"], status="skipped", why="file missing"))
                continue
            src = open(path).read()
            if src.count(m["old"]) != m.get("count", 1):
                results.append(dict(name=m["name"], status="skipped", why=f"anchor text occurs {src.count(m['old'])} time(s)"))
                continue
            open(path, "w").write(src.replace(m["old"], m["new"]))
            try:
                r, fired = _child(rep, d)
                want = m["expect"]
                if want == "SILENT":
                    # a behaviour-preserving edit: the check must neither report a violation nor fail to analyse
                    bad = bool(fired) or "ANALYSIS-ERROR" in r.stdout
                    results.append(dict(name=m["name"], status="FALSE-ALARM" if bad else "silent", fired=sorted(set(fired))[:6],
                                        why=(r.stdout.strip().splitlines() or [""])[-1][:200] if bad else ""))
                    continue
                hit = any(f.startswith(want) for f in fired)
                if "ANALYSIS-ERROR" in r.stdout and not hit:
                    results.append(dict(name=m["name"], status="mutant-does-not-build", why=r.stdout.strip().splitlines()[-1][:200]))
                else:
                    results.append(dict(name=m["name"], status="detected" if hit else "MISSED", expect=want, fired=sorted(set(fired))[:6]))
            finally:
                open(path, "w").write(src)
    finally:
        shutil.rmtree(d, ignore_errors=True)
    rep.selftest = dict(mutants=len(mutants), results=results)
    for r_ in results:
        print(f"  selftest {r_['name']}: {r_['status']}" + (f" (fired: {r_.get('fired')} {r_.get('why', '')})" if r_["status"] in ("MISSED", "FALSE-ALARM") else ""))
    missed = [r_ for r_ in results if r_["status"] == "MISSED"]
    if missed:
        raise AnalysisError("selftest: mutant(s) not detected: " + ", ".join(r_["name"] for r_ in missed))
    fa = [r_ for r_ in results if r_["status"] == "FALSE-ALARM"]
    if fa:
        raise AnalysisError("selftest: behaviour-preserving edit(s) reported: " + ", ".join(f"{r_['name']} {r_.get('fired')}" for r_ in fa))
