"""Pairing analysis for lexer offsets (C16 R3b/R3c).

An end offset `p + n` is a char boundary only if n is the byte width of the text that starts at p. The lexer obtains positions and
characters as items `(position, char)` of its char-indices stream; the analysis resolves operands to (root local, field path) --
through copies, `?`, Option/Result wrappers, parameters (all call sites) and closure captures -- and checks:
  * `p + c.len_utf8()` and `span_one(l, p, c)`: p and c are fields 0 and 1 of the same stream item
  * `p + <constant>` / `p + <string>.len()`: only at reviewed sites (the character at p must be known to have that width)
"""
import re
from . import mir

WRAP = ("Some", "Ok", "Continue")
STREAM = re.compile(r"Peekable<I> as core::iter::traits::iterator::Iterator>::next$|Peekable::<I>::(peek|next_if|next_if_eq)$|Iterator::find$")
TRANSPARENT = re.compile(r"Try(>)?::branch$|Option::<T>::(ok_or_else|ok_or|unwrap|expect|copied|cloned|unwrap_or_default)$|Result::<T, E>::(map_err|ok|unwrap|expect)$|"
                         r"Option<&T>>::(copied|cloned)$|<impl Option<&T>>::(copied|cloned)$|Option::<&T>::(copied|cloned)$")


def strip(path):
    """drop Option/Result/ControlFlow layers and derefs: [dc V][f .. 0] pairs"""
    out = []
    i = 0
    while i < len(path):
        p = path[i]
        if p == "*":
            i += 1
            continue
        if isinstance(p, list) and p[0] == "dc" and p[1] in WRAP and i + 1 < len(path) and isinstance(path[i + 1], list) and path[i + 1][0] == "f" and path[i + 1][3] == "0":
            i += 2
            continue
        if isinstance(p, list) and p[0] == "f":
            out.append(p[3])
        elif isinstance(p, list) and p[0] == "dc":
            out.append("as:" + p[1])
        else:
            out.append(str(p))
        i += 1
    return out


class Resolver:
    def __init__(self, F, crate="sway_parse"):
        self.F = F
        self.crate = crate
        self.callers = {}
        for f in F.fns.values():
            if f.crate != crate:
                continue
            for bi, t in f.calls():
                cid = mir.callee_id(t)
                if cid in F.fns:
                    self.callers.setdefault(cid, []).append((f, t))

    def resolve(self, fn, o, depth=0):
        """-> list of alternatives (kind, fnid, root_local, fields, node): kind in item|param|capture|call|const|bin|other"""
        if depth > 14:
            return [("other", fn.id, None, [], "depth")]
        if "c" in o:
            return [("const", fn.id, None, [], o["c"])]
        l = o["l"]
        fields = strip(o.get("p", []))
        defs = mir.defs_of(fn).get(l, [])
        nargs = fn.d.get("nargs", 0)
        if not defs:
            if 1 <= l <= nargs:
                if fn.kind == "closure" and l == 1:
                    # captured environment: field = upvar index
                    up = fn.d.get("upvars", {})
                    if fields and fields[0] in up:
                        return [("capture", fn.id, up[fields[0]], fields[1:], None)]
                    return [("other", fn.id, l, fields, "closure env")]
                return [("param", fn.id, l, fields, None)]
            return [("other", fn.id, l, fields, "no def")]
        out = []
        for d in defs[:4]:
            _, _, k, srcs, node = d
            if k in ("use", "ref", "cast") and srcs:
                for alt in self.resolve(fn, srcs[0], depth + 1):
                    out.append(alt[:3] + (alt[3] + fields, alt[4]))
            elif k == "call":
                nm = node.get("rn") or node.get("fp", "")
                if TRANSPARENT.search(nm) or TRANSPARENT.search(node.get("fp", "")):
                    for alt in self.resolve(fn, node["a"][0], depth + 1):
                        out.append(alt[:3] + (alt[3] + fields, alt[4]))
                elif STREAM.search(nm) or STREAM.search(node.get("fp", "")):
                    out.append(("item", fn.id, l, fields, node))
                else:
                    cid = mir.callee_id(node)
                    cf = self.F.fns.get(cid)
                    if cf is not None and cf.crate == self.crate and depth < 10:
                        # a crate-local helper / closure that hands out a stream item: fresh item per call
                        inner = self.resolve(cf, {"l": 0}, depth + 1)
                        if inner and all(a[0] == "item" and not a[3] for a in inner):
                            out.append(("item", fn.id, l, fields, node))
                            continue
                    out.append(("call", fn.id, l, fields, node))
            elif k == "bin":
                out.append(("bin", fn.id, l, fields, node))
            elif k == "agg":
                # tuple / struct construction: select the field
                if fields and fields[0].isdigit() and int(fields[0]) < len(srcs):
                    for alt in self.resolve(fn, srcs[int(fields[0])], depth + 1):
                        out.append(alt[:3] + (alt[3] + fields[1:], alt[4]))
                else:
                    out.append(("other", fn.id, l, fields, "agg"))
            else:
                out.append(("other", fn.id, l, fields, k))
        return out

    def expand(self, alt, depth=0):
        """replace param / capture alternatives by what the call sites / the parent pass; returns list of alternatives"""
        kind, fid, root, fields, node = alt
        fn = self.F.fns[fid]
        if depth > 6:
            return [alt]
        if kind == "param":
            outs = []
            sites = self.callers.get(fid, [])
            if fn.kind == "closure":
                for cf, t in sites:
                    if (t.get("fp", "")).startswith("core::ops::function::Fn") and len(t["a"]) >= 2 and "l" in t["a"][1]:
                        for d in mir.defs_of(cf).get(t["a"][1]["l"], []):
                            if d[2] == "agg" and 0 <= root - 2 < len(d[3]):
                                for a2 in self.resolve(cf, d[3][root - 2]):
                                    outs += self.expand(a2[:3] + (a2[3] + fields, a2[4]), depth + 1)
            else:
                for cf, t in sites:
                    if cf.id == fid:
                        continue
                    if root - 1 < len(t.get("a", [])):
                        for a2 in self.resolve(cf, t["a"][root - 1]):
                            outs += self.expand(a2[:3] + (a2[3] + fields, a2[4]), depth + 1)
            return outs or [alt]
        if kind == "capture":
            parent = self.F.fns.get(fn.parent)
            if parent is None:
                return [alt]
            locs = [int(l) for l, v in parent.vars.items() if v == root]
            if not locs and parent.kind == "closure":
                up = parent.d.get("upvars", {})
                for k_, v_ in up.items():
                    if v_ == root:
                        return self.expand(("capture", parent.id, root, fields, None), depth + 1)
            outs = []
            for l in locs[:3]:
                for a2 in self.resolve(parent, {"l": l}):
                    outs += self.expand(a2[:3] + (a2[3] + fields, a2[4]), depth + 1)
            return outs or [alt]
        return [alt]

    def items(self, fn, o):
        """fully expanded alternatives of an operand"""
        outs = []
        for a in self.resolve(fn, o):
            outs += self.expand(a)
        return outs


def paired(R, fn, pos_op, chr_op):
    """(ok, why): every alternative of pos and chr is field 0 / field 1 of the same stream item"""
    P = R.items(fn, pos_op)
    C = R.items(fn, chr_op)
    if not P or not C:
        return False, "unresolved operand"
    for p in P:
        if p[0] != "item" or p[3][-1:] != ["0"]:
            return False, f"the position is not the position of a stream item ({p[0]} {p[3]})"
    for c in C:
        if c[0] != "item" or c[3][-1:] != ["1"]:
            return False, f"the character is not the character of a stream item ({c[0]} {c[3]})"
    pk = {(p[1], p[2], tuple(p[3][:-1])) for p in P}
    ck = {(c[1], c[2], tuple(c[3][:-1])) for c in C}
    if pk != ck:
        return False, "position and character come from different stream items"
    return True, ""
