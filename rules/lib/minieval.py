"""Finite-domain evaluation of a small pure Rust function over its syntax tree (E-TAB).

Values: ints, bools, ('enum', Path, [payload...]) for enum values (Option::Some(x) = ('enum','Some',[x]), None = ('enum','None',[])),
('struct', {field: value}).  Supports match / if / if let / let / matches! / == != ! && || / closures / a few Option methods.
Anything else raises Unsupported: the caller reports ANALYSIS-ERROR (the rule cannot decide), never a violation."""
from . import tab


class Unsupported(Exception):
    pass


def E(name, *payload):
    return ("enum", name, list(payload))


NONE = E("None")


def Some(x):
    return E("Some", x)


class Closure:
    def __init__(self, node, env):
        self.node, self.env = node, env


def last(path):
    return path.split("::")[-1]


def match_pat(p, v, env):
    """Try to match value v against pattern p, binding into env (a dict copy is the caller's job). Returns bool."""
    k = p.get("k")
    if k == "PWild":
        return True
    if k == "PRef":
        return match_pat(p["pat"], v, env)
    if k == "PIdent":
        nm = p["name"]
        if nm[:1].isupper():  # unit variant / const
            return isinstance(v, tuple) and v[0] == "enum" and v[1] == nm and not v[2]
        if p.get("sub"):
            if not match_pat(p["sub"], v, env):
                return False
        env[nm] = v
        return True
    if k == "PLit":
        lit = p["lit"]
        return v == _lit(lit)
    if k == "POr":
        for c in p["cases"]:
            e2 = dict(env)
            if match_pat(c, v, e2):
                env.update(e2)
                return True
        return False
    if k == "PPath":
        return isinstance(v, tuple) and v[0] == "enum" and v[1] == last(p["path"]) 
    if k == "PTupleStruct":
        if not (isinstance(v, tuple) and v[0] == "enum" and v[1] == last(p["path"])):
            return False
        elems = p["elems"]
        if any(e.get("k") == "PRest" for e in elems):
            return True
        if len(elems) != len(v[2]):
            return False
        return all(match_pat(e, x, env) for e, x in zip(elems, v[2]))
    if k == "PTuple":
        if not (isinstance(v, tuple) and v[0] == "tuple"):
            return False
        return all(match_pat(e, x, env) for e, x in zip(p["elems"], v[1]))
    if k == "PStruct":
        if isinstance(v, tuple) and v[0] == "enum" and v[1] == last(p["path"]) and v[2] and isinstance(v[2][0], dict):
            d = v[2][0]
            return all(match_pat(f["pat"], d[f["name"]], env) for f in p["fields"])
        raise Unsupported("struct pattern")
    raise Unsupported(f"pattern {k}")


def _lit(n):
    t = n.get("t")
    if t == "bool":
        return bool(n["v"])
    if t == "int":
        return int(str(n["v"]).replace("_", ""))
    raise Unsupported(f"literal {t}")


def ev(n, env):
    k = n.get("k")
    if k == "Lit":
        return _lit(n)
    if k == "Path":
        p = n["path"]
        if p in env:
            return env[p]
        if p == "None" or p.endswith("::None"):
            return NONE
        if last(p)[:1].isupper():
            return E(last(p))
        raise Unsupported(f"free variable {p}")
    if k in ("Paren", "Ref", "Deref", "Group"):
        return ev(n["expr"], env)
    if k == "Unary":
        v = ev(n["expr"], env)
        if n.get("op") == "!":
            return not v
        if n.get("op") == "*":
            return v
        raise Unsupported("unary " + str(n.get("op")))
    if k == "Binary":
        op = n["op"]
        if op == "&&":
            return bool(ev(n["left"], env)) and bool(ev(n["right"], env))
        if op == "||":
            return bool(ev(n["left"], env)) or bool(ev(n["right"], env))
        a, b = ev(n["left"], env), ev(n["right"], env)
        if op == "==":
            return a == b
        if op == "!=":
            return a != b
        raise Unsupported("binary " + op)
    if k == "Field":
        b = ev(n["base"], env)
        if isinstance(b, tuple) and b[0] == "struct":
            return b[1][n["member"]]
        raise Unsupported("field access")
    if k == "Block":
        env = dict(env)
        res = ("tuple", [])
        for s in n.get("stmts", []):
            if s.get("k") == "Let":
                v = ev(s["init"], env)
                pat = s["pat"]
                while pat.get("k") == "PType":
                    pat = pat["pat"]
                if not match_pat(pat, v, env):
                    raise Unsupported("refutable let")
                res = ("tuple", [])
            else:
                res = ev(s, env)
        return res
    if k == "If":
        c = ev(n["cond"], env)
        if c:
            return ev(n["then"], env)
        return ev(n["else"], env) if n.get("else") else ("tuple", [])
    if k == "IfLet":
        v = ev(n["expr"], env)
        e2 = dict(env)
        if match_pat(n["pat"], v, e2):
            return ev(n["then"], e2)
        return ev(n["else"], env) if n.get("else") else ("tuple", [])
    if k == "Match":
        v = ev(n["expr"], env)
        for a in n["arms"]:
            e2 = dict(env)
            if match_pat(a["pat"], v, e2):
                if a.get("guard") and not ev(a["guard"], e2):
                    continue
                return ev(a["body"], e2)
        raise Unsupported("non-exhaustive match in evaluation")
    if k == "Macro" and n.get("name") == "matches":
        m = n.get("matches")
        if not m:
            raise Unsupported("matches! without parsed pattern")
        v = ev(m["expr"], env)
        e2 = dict(env)
        ok = match_pat(m["pat"], v, e2)
        if ok and m.get("guard"):
            ok = bool(ev(m["guard"], e2))
        return ok
    if k == "Call":
        f = n["func"]
        if f.get("k") == "Path":
            nm = last(f["path"])
            args = [ev(a, env) for a in n.get("args", [])]
            if nm == "Some":
                return Some(args[0])
            if nm[:1].isupper():
                return E(nm, *args)
        raise Unsupported("call")
    if k == "Closure":
        return Closure(n, env)
    if k == "MethodCall":
        r = ev(n["recv"], env)
        m = n["method"]
        args = n.get("args", [])
        if m in ("clone", "as_ref", "as_deref", "copied", "cloned", "to_owned", "borrow", "into"):
            return r
        is_opt = isinstance(r, tuple) and r[0] == "enum" and r[1] in ("Some", "None")
        if is_opt:
            some = r[1] == "Some"
            if m == "is_some":
                return some
            if m == "is_none":
                return not some
            if m == "unwrap_or_default":
                return r[2][0] if some else 0
            if m == "unwrap_or":
                return r[2][0] if some else ev(args[0], env)
            if m in ("is_some_and", "is_none_or", "map", "map_or", "filter"):
                clo = ev(args[-1], env)
                def call(c, x):
                    if not isinstance(c, Closure):
                        raise Unsupported("non-closure argument")
                    e2 = dict(c.env)
                    ps = c.node.get("params", c.node.get("inputs", []))
                    if len(ps) != 1 or not match_pat(ps[0], x, e2):
                        raise Unsupported("closure params")
                    return ev(c.node["body"], e2)
                if m == "is_some_and":
                    return some and bool(call(clo, r[2][0]))
                if m == "is_none_or":
                    return (not some) or bool(call(clo, r[2][0]))
                if m == "map":
                    return Some(call(clo, r[2][0])) if some else NONE
                if m == "map_or":
                    return call(clo, r[2][0]) if some else ev(args[0], env)
                if m == "filter":
                    return r if some and call(clo, r[2][0]) else NONE
        if m in ("eq",):
            return r == ev(args[0], env)
        if m in ("ne",):
            return r != ev(args[0], env)
        raise Unsupported(f"method {m}")
    if k == "Return":
        raise Unsupported("early return")
    raise Unsupported(f"expression {k}")
