"""Per-variant register tables of VirtualOp / AllocatedInstruction (E-TAB): which operand positions each table lists."""
from . import tab
from .common import AnalysisError

VOPS = "sway-core/src/asm_lang/virtual_ops.rs"


def variants(tree, enum="VirtualOp", reg_ty="VirtualRegister"):
    """variant -> list of field type strings; and the positions holding registers."""
    e = tab.enum(tree, enum)
    out = {}
    for v in e["variants"]:
        tys = [tab.norm(f.get("ty", "")) for f in v.get("fields", [])]
        out[v["name"]] = dict(types=tys, regs=[i for i, t in enumerate(tys) if t == reg_ty], line=v.get("l", 0))
    return out


def _alts(p):
    k = p.get("k")
    if k == "POr":
        r = []
        for c in p["cases"]:
            r += _alts(c)
        return r
    if k == "PRef":
        return _alts(p["pat"])
    return [p]


def _pos_binders(p, arity):
    """binder name (or None) per position for a tuple-struct pattern; handles `..`."""
    if p.get("k") != "PTupleStruct":
        return [None] * arity
    elems = p["elems"]
    ri = next((i for i, e in enumerate(elems) if e.get("k") == "PRest"), None)
    out = [None] * arity
    for i in range(arity):
        if ri is None:
            j = i
        elif i < ri:
            j = i
        elif i >= arity - (len(elems) - ri - 1):
            j = i - (arity - len(elems))
        else:
            continue
        if 0 <= j < len(elems):
            e = elems[j]
            while e.get("k") == "PRef":
                e = e["pat"]
            if e.get("k") == "PIdent":
                out[i] = e["name"]
    return out


def match_table(fn_node, vs):
    """For the (first) match over the enum's variants in a function: variant -> dict(binders, arm, pat, line); plus wildcard arms."""
    best = None
    for m in tab.matches_in(fn_node["body"]):
        n = 0
        for a in m["arms"]:
            for p in _alts(a["pat"]):
                nm = tab.last_seg(p.get("path", p.get("name", "")) or "")
                if nm in vs:
                    n += 1
        if best is None or n > best[0]:
            best = (n, m)
    if best is None or best[0] == 0:
        raise AnalysisError(f"no match over the instruction enum in {fn_node.get('name')}")
    m = best[1]
    rows, wild = {}, []
    for a in m["arms"]:
        for p in _alts(a["pat"]):
            k = p.get("k")
            nm = tab.last_seg(p.get("path", p.get("name", "")) or "")
            if k in ("PWild",) or (k == "PIdent" and nm not in vs):
                if not a.get("guard"):
                    wild.append(a)
                continue
            if nm in vs:
                rows.setdefault(nm, []).append(dict(binders=_pos_binders(p, len(vs[nm]["types"])), arm=a, pat=p,
                                                    line=p.get("l", a.get("l", 0))))
    return rows, wild, m


def vec_positions(row):
    """Positions named in the arm's `vec![..]` result, in order (None for an element that is not a plain binder)."""
    b = row["arm"]["body"]
    while b.get("k") == "Block" and len(b.get("stmts", [])) == 1:
        b = b["stmts"][0]
    if b.get("k") != "Macro" or b.get("name") != "vec":
        return None
    out = []
    for e in b.get("args") or []:
        while e.get("k") in ("Ref", "Paren", "Unary") and "expr" in e:
            e = e["expr"]
        nm = e.get("path") if e.get("k") == "Path" else None
        out.append(row["binders"].index(nm) if nm in row["binders"] else None)
    return out
