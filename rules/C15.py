"""C15 Builds are deterministic — clause: no hash-order or ambient nondeterminism reaches an artifact unreviewed.

R1 the repository's own mechanism stays armed: workspace lint clippy::iter_over_hash_type = "deny", every output-affecting
   crate inherits the workspace lints, and `#[allow(clippy::iter_over_hash_type)]` appears only at reviewed sites
R2 (E-MIR) what the lint does not see: every call of an iteration API on a randomly seeded hash collection (std RandomState
   HashMap/HashSet, hashbrown default hasher, DashMap) in those crates is order-insensitive by idiom or individually reviewed
R3 (E-MIR) ambient sources (clock, pid, thread identity, directory order, RandomState::new, rand, environment) are called
   only at reviewed sites
"""
import os, re
from lib import mir, hashiter, sites
from lib.common import REPO, AnalysisError

LEVEL = "other"
CRATES = ["sway_ir", "sway_core", "sway_types", "sway_utils", "sway_error", "sway_parse", "sway_ast", "sway_features", "forc_pkg", "forc_util"]
DIRS = {"sway_ir": "sway-ir", "sway_core": "sway-core", "sway_types": "sway-types", "sway_utils": "sway-utils", "sway_error": "sway-error",
        "sway_parse": "sway-parse", "sway_ast": "sway-ast", "sway_features": "sway-features", "forc_pkg": "forc-pkg", "forc_util": "forc-util"}
ALLOW_REVIEWED = {"sway-features/src/lib.rs": 1}
AMBIENT = re.compile(
    r"^(std::time::(SystemTime|Instant)::now|std::process::id|std::thread::(current|spawn|scope)|std::fs::read_dir|"
    r"std::collections::hash::map::RandomState::new|std::hash::random::RandomState::new|rand::|rand_core::|getrandom::|fastrand::|"
    r"std::env::(var|vars|var_os|args|args_os|current_dir|temp_dir|current_exe)|rayon|std::thread::Builder|uuid::|chrono::.*::now|tempfile::|"
    r"std::ptr::.*addr|core::ptr::.*::addr$)")


def toml_section(text, name):
    m = re.search(r"(?ms)^\[" + re.escape(name) + r"\]\s*$(.*?)(?=^\[|\Z)", text)
    return m.group(1) if m else None


def run(rep):
    rep.explanation = (
        "Decides the structural clause 'no iteration order of a randomly seeded hash collection and no ambient per-process value is "
        "observed in the output-affecting crates except at individually reviewed sites', plus that the repository's own lint stays "
        "armed. Byte-identical artifacts additionally need ordered-container iteration and thread scheduling not to matter, which is "
        "not decided.")
    rep.trusted = ["rustc MIR + resolution", "cargo [lints] inheritance", "reviewed sites in spec/c15_sites.txt and spec/c15_ambient.txt",
                   "FxHasher / IndexMap / BTreeMap iterate deterministically"]
    # ---- R1 ---------------------------------------------------------------------------------------------------------
    root = open(os.path.join(REPO, "Cargo.toml")).read()
    sec = toml_section(root, "workspace.lints.clippy") or ""
    m = re.search(r'(?m)^\s*iter_over_hash_type\s*=\s*"(\w+)"', sec)
    m2 = re.search(r'(?m)^\s*iter_over_hash_type\s*=\s*\{[^}]*level\s*=\s*"(\w+)"', sec)
    level = (m or m2).group(1) if (m or m2) else None
    rep.ob("R1-workspace-lint-deny", "Cargo.toml|clippy::iter_over_hash_type", level in ("deny", "forbid"), "Cargo.toml", 0,
           f"[workspace.lints.clippy] iter_over_hash_type is {level!r} (must be deny): hash-order iteration is no longer rejected by the project's own gate")
    for c, d in DIRS.items():
        txt = open(os.path.join(REPO, d, "Cargo.toml")).read()
        ls = toml_section(txt, "lints")
        ok = bool(ls) and re.search(r"(?m)^\s*workspace\s*=\s*true", ls) is not None
        rep.ob("R1-crate-inherits-workspace-lints", d, ok, f"{d}/Cargo.toml", 0,
               f"{d}/Cargo.toml has no `[lints] workspace = true`: the deny lint does not apply to this crate")
        # crate-level or item-level allows
        n_allow = {}
        for rootd, dirs, fs in os.walk(os.path.join(REPO, d, "src")):
            for fn in fs:
                if fn.endswith(".rs"):
                    p = os.path.join(rootd, fn)
                    src = open(p, errors="replace").read()
                    k = len(re.findall(r"#!?\[\s*allow\s*\([^\]]*clippy::iter_over_hash_type", src))
                    if k:
                        n_allow[os.path.relpath(p, REPO)] = k
        for f_, k in n_allow.items():
            rep.ob("R1-allow-only-at-reviewed-sites", f_, ALLOW_REVIEWED.get(f_) == k, f_, 0,
                   f"{k} `allow(clippy::iter_over_hash_type)` attribute(s) in {f_}; reviewed: {ALLOW_REVIEWED.get(f_, 0)}")
    rep.floor("R1-crate-inherits-workspace-lints", 10)

    # ---- R2 ---------------------------------------------------------------------------------------------------------
    F = mir.Facts(CRATES)
    tab = sites.load_sites("spec/c15_sites.txt")
    used = set()
    n_idiom = n_rev = 0
    adv = []
    for s in hashiter.sites(F, CRATES):
        why = hashiter.insensitive(F, s)
        if why:
            n_idiom += 1
            rep.ob("R2-hash-order-not-observed", s["key"], True, s["file"], s["line"], "idiom: " + why)
        elif s["key"] in tab:
            used.add(s["key"])
            n_rev += 1
            if tab[s["key"]].startswith("advisory"):
                adv.append(f"{s['file']}:{s['line']} {s['key']} — {tab[s['key']]}")
            rep.ob("R2-hash-order-not-observed", s["key"], True, s["file"], s["line"], "reviewed: " + tab[s["key"]])
        else:
            rep.ob("R2-hash-order-not-observed", s["key"], False, s["file"], s["line"],
                   f"`{s['api']}` on {s['inst'].split('::<')[0].split('::')[-2] if '::<' in s['inst'] else 'a hash collection'} with a randomly seeded hasher "
                   f"({s['inst'][:120]}): the iteration order differs between processes and flows somewhere other than an order-insensitive "
                   "sink (set/map collect, sort, any/all/count, retain); two builds of the same package can differ")
    rep.floor("R2-hash-order-not-observed", 25)
    rep.analysed = dict(hash_iteration_sites=n_idiom + n_rev, by_idiom=n_idiom, by_review=n_rev,
                        stale_table_entries=sorted(set(tab) - used), advisory=adv)
    for a in adv:
        rep.note("ADVISORY " + a)

    # ---- R3 ---------------------------------------------------------------------------------------------------------
    amb = sites.load_sites("spec/c15_ambient.txt")
    n3 = 0
    for f in F.fns.values():
        if f.exp or f.crate not in CRATES:
            continue
        for bi, t in f.calls():
            nm = t.get("fp", "")
            if not AMBIENT.search(nm):
                continue
            n3 += 1
            base = f.name.split("::{closure")[0]
            key = f"{base}|{nm}"
            rep.ob("R3-ambient-source-reviewed", key, key in amb, f.file, t["ln"],
                   f"{f.name} calls {nm}: a per-process / per-time / per-environment value enters an output-affecting crate at a site that is not in "
                   "spec/c15_ambient.txt")
    rep.floor("R3-ambient-source-reviewed", 20, n3)
