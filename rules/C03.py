"""C03 Every IR optimization pass preserves behaviour — decides the per-instruction tables every pass is built on.

R1 COVER-operands, R2 NOWILD, R3 IMPLIES, R4 SPEC(ir_effects), R5 cse::Expr carries every field, R6 fn_dedup hashes
every non-Value field, R7 pass registry, R8 inliner clones every field through the value/block maps."""
import os, re
from lib import tab, vtable
from lib.common import VERIF, AnalysisError

LEVEL = "other"
INSTR = "sway-ir/src/instruction.rs"
MEMU = "sway-ir/src/analysis/memory_utils.rs"
CSE = "sway-ir/src/optimize/cse.rs"
DEDUP = "sway-ir/src/optimize/fn_dedup.rs"
INLINE = "sway-ir/src/optimize/inline.rs"
VERIFY = "sway-ir/src/verify.rs"
PM = "sway-ir/src/pass_manager.rs"
DCE = "sway-ir/src/optimize/dce.rs"

VALUE_TYPES = ("Value", "Vec < Value >", "BranchToWithArgs", "Vec < AsmArg >", "InitAggr")
NESTED = {("InstOp", "FuelVm"): "FuelVmInstruction"}
# struct-typed payloads and their SSA operand sub-fields
STRUCT_OPERANDS = {"BranchToWithArgs": ["args"], "InitAggr": ["aggr_ptr", "initializers"]}


def load_spec():
    """spec/ir_effects.txt: Variant <TAB> key=value ... (operands, stores, loads, terminator, side_effect)"""
    spec = {}
    for ln in open(os.path.join(VERIF, "spec/ir_effects.txt")):
        ln = ln.strip()
        if not ln or ln.startswith("#"):
            continue
        parts = ln.split()
        d = {}
        for kv in parts[1:]:
            k, _, v = kv.partition("=")
            d[k] = [x for x in v.split(",") if x] if k in ("operands", "stores", "loads") else (v == "yes")
        spec[parts[0]] = d
    return spec


def enums():
    t = tab.tree(INSTR)
    return {"InstOp": vtable.enum_variants(t, "InstOp"), "FuelVmInstruction": vtable.enum_variants(t, "FuelVmInstruction")}


def all_variants(E):
    out = []
    for e in ("InstOp", "FuelVmInstruction"):
        for v in E[e]:
            if (e, v) in NESTED:
                continue
            out.append((e, v))
    return out


def value_fields(vdef):
    return [f for f in vdef["fields"] if f["ty"] in VALUE_TYPES]


def table(file, fname, E, self_ty=None):
    t = tab.tree(file)
    f = tab.fn(t, fname, self_ty=self_ty)
    rows, wild = vtable.build(f, E, self_enum=self_ty if self_ty in E else None, nested=NESTED)
    return f, rows, wild


def rows_for(rows, wild, ev):
    rs = list(rows.get(ev, []))
    return rs


def run(rep):
    E = enums()
    spec = load_spec()
    variants = all_variants(E)
    rep.explanation = (
        "Decides that the per-instruction tables every IR pass relies on are complete and mutually consistent for all "
        f"{len(variants)} InstOp/FuelVmInstruction variants (operand enumeration and rewriting, side-effect / terminator / "
        "memory read-write tables, CSE expression keys, function-dedup hashing, inliner cloning, pass registry). Does not "
        "decide any pass's algorithm. Necessity: a variant or SSA operand missing from one of these tables makes DCE delete a "
        "live definition, CSE/dedup merge different computations, or inlining keep stale values, for every program using it.")
    rep.analysed = dict(variants=len(variants), files=[INSTR, MEMU, CSE, DEDUP, INLINE, VERIFY, PM, DCE])
    rep.trusted = ["syn parse of the files", "spec/ir_effects.txt (written from the doc comments of instruction.rs)"]

    # fail closed on variants the spec does not know
    for e, v in variants:
        rep.ob("R4-spec-classifies-variant", f"{e}::{v}", v in spec, INSTR, E[e][v]["l"],
               f"variant {e}::{v} is not classified in spec/ir_effects.txt (new instruction: add its operands/effects)")

    # ---- R1: operand coverage in the three operand tables -------------------------------------
    for fname in ("get_operands", "set_operand", "replace_values"):
        f, rows, wild = table(INSTR, fname, E, self_ty="InstOp")
        for e, v in variants:
            vf = value_fields(E[e][v])
            rs = rows.get((e, v), [])
            if not rs:
                covered_by_wild = bool(wild.get(e))
                if vf:
                    rep.ob("R1-cover-operands", f"{fname}:{e}::{v}", False, INSTR, f["l"],
                           f"{e}::{v} has SSA operands {[x['name'] for x in vf]} but no arm of {fname} names it"
                           + (" (falls into a catch-all arm)" if covered_by_wild else ""))
                continue
            for fld in vf:
                ok = any(_field_used(r, E[e][v], fld) for r in rs)
                rep.ob("R1-cover-operands", f"{fname}:{e}::{v}.{fld['name']}", ok, INSTR, rs[0].line,
                       f"SSA operand field `{fld['name']}` of {e}::{v} is not used in its arm of {fname}: the operand is "
                       "invisible to use-counting / value replacement")
    rep.floor("R1-cover-operands", 180)

    # ---- R2: no catch-all arms -----------------------------------------------------------------
    nowild = [(INSTR, "get_operands", "InstOp"), (INSTR, "set_operand", "InstOp"), (INSTR, "replace_values", "InstOp"),
              (INSTR, "may_have_side_effect", "InstOp"), (MEMU, "get_loaded_ptr_values", None),
              (MEMU, "get_stored_ptr_values", None), (MEMU, "compute_escaped_symbols", None),
              (CSE, "instr_to_expr", None), (INLINE, "inline_instruction", None)]
    # catch-alls that exist today and are sound by construction (reviewed, one reason each)
    allowed_wild = {
        ("compute_escaped_symbols", "FuelVmInstruction"): "no FuelVM instruction makes a pointer escape into memory reachable by other code",
        ("instr_to_expr", "FuelVmInstruction"): "maps to None (never value-numbered): conservative",
    }
    for file, fname, st in nowild:
        f, rows, wild = table(file, fname, E, self_ty=st)
        for e in ("InstOp", "FuelVmInstruction"):
            arms = wild.get(e, [])
            why = allowed_wild.get((fname, e))
            if arms and why:
                # must still be a conservative catch-all: check nothing else
                rep.ob("R2-no-catch-all", f"{fname}:{e}", True, file, arms[0]["l"], "reviewed catch-all: " + why)
                continue
            rep.ob("R2-no-catch-all", f"{fname}:{e}", not arms, file, arms[0]["l"] if arms else f["l"],
                   f"{fname} has a catch-all arm over {e}: a new or re-classified instruction is silently given the default")
            # every variant must be named somewhere
            for e2, v in variants:
                if e2 != e:
                    continue
                named = bool(rows.get((e2, v))) or bool(arms and why)
                if not named and not arms:
                    rep.ob("R2-no-catch-all", f"{fname}:{e2}::{v}:named", False, file, f["l"], f"{e2}::{v} not handled in {fname}")
    # verifier dispatch: every variant named
    tv = tab.tree(VERIFY)
    vf_all = [f for f in tab.items(tv, "Fn") if f["name"] == "verify_instructions"]
    if len(vf_all) != 1:
        raise AnalysisError("verify.rs: verify_instructions not found")
    rows, wild = vtable.build(vf_all[0], E, nested=NESTED)
    for e in ("InstOp", "FuelVmInstruction"):
        rep.ob("R2-no-catch-all", f"verify_instructions:{e}", not wild.get(e), VERIFY,
               wild[e][0]["l"] if wild.get(e) else vf_all[0]["l"], f"the IR verifier has a catch-all arm over {e}")
    for e, v in variants:
        rep.ob("R2-verifier-names-variant", f"{e}::{v}", bool(rows.get((e, v))), VERIFY, vf_all[0]["l"],
               f"the IR verifier has no arm for {e}::{v}")

    # ---- tables as variant -> value -------------------------------------------------------------
    _, se_rows, _ = table(INSTR, "may_have_side_effect", E, self_ty="InstOp")
    side = {}
    for ev in variants:
        rs = se_rows.get(ev, [])
        lits = {r.literal() for r in rs}
        side[ev] = True if lits == {True} else False if lits == {False} else "cond"
    term = _matches_set(tab.fn(tab.tree(INSTR), "is_terminator", self_ty="InstOp"), E)
    _, st_rows, _ = table(MEMU, "get_stored_ptr_values", E)
    _, ld_rows, _ = table(MEMU, "get_loaded_ptr_values", E)
    stored = {ev: _result_fields(st_rows.get(ev, []), E[ev[0]][ev[1]]) for ev in variants}
    loaded = {ev: _result_fields(ld_rows.get(ev, []), E[ev[0]][ev[1]]) for ev in variants}
    _, cse_rows, cse_wild = table(CSE, "instr_to_expr", E)
    cse_some = {ev for ev in variants if any(r.literal() != "None" for r in cse_rows.get(ev, []))}

    # ---- R3: implications between tables ------------------------------------------------------
    for ev in variants:
        e, v = ev
        line = E[e][v]["l"]
        if stored[ev]:
            rep.ob("R3-stores-imply-side-effect", f"{e}::{v}", side[ev] in (True, "cond"), INSTR, line,
                   f"{e}::{v} writes memory through {sorted(stored[ev])} (get_stored_ptr_values) but may_have_side_effect "
                   "says false: DCE would delete the store")
        if ev in term:
            # DCE must refuse terminators: checked structurally below (R3-dce-conjunction)
            pass
        if ev in cse_some:
            ok = side[ev] is False and ev not in term and (not loaded[ev] or v == "PtrToInt")
            rep.ob("R3-cse-only-pure", f"{e}::{v}", ok, CSE, cse_rows[ev][0].line,
                   f"CSE value-numbers {e}::{v}, which is side-effecting, a terminator or reads memory "
                   f"(side_effect={side[ev]}, terminator={ev in term}, loads={sorted(loaded[ev])})")
    # dce: can_eliminate_value refuses side effects and terminators
    fd = tab.fn(tab.tree(DCE), "can_eliminate_value")
    names = {n for k, n, _ in tab.calls(fd["body"])}
    for need in ("may_have_side_effect", "is_terminator"):
        rep.ob("R3-dce-consults-table", need, need in names, DCE, fd["l"],
               f"dce::can_eliminate_value no longer consults InstOp::{need}")

    # ---- R4: one-directional SPEC -----------------------------------------------------------------
    for ev in variants:
        e, v = ev
        s = spec.get(v)
        if not s:
            continue
        line = E[e][v]["l"]
        ops = {f["name"] for f in value_fields(E[e][v])}
        rep.ob("R4-spec-operands", f"{e}::{v}", set(s.get("operands", [])) == ops, INSTR, line,
               f"spec lists SSA operand fields {sorted(s.get('operands', []))} for {e}::{v}, the enum has {sorted(ops)} "
               "(update spec/ir_effects.txt together with the tables)")
        rep.ob("R4-spec-stores", f"{e}::{v}", set(s.get("stores", [])) <= stored[ev], MEMU, line,
               f"{e}::{v} must report {s.get('stores')} as stored-to pointers; get_stored_ptr_values reports {sorted(stored[ev])}")
        rep.ob("R4-spec-loads", f"{e}::{v}", set(s.get("loads", [])) <= loaded[ev], MEMU, line,
               f"{e}::{v} must report {s.get('loads')} as loaded-from pointers; get_loaded_ptr_values reports {sorted(loaded[ev])}")
        if s.get("side_effect"):
            rep.ob("R4-spec-side-effect", f"{e}::{v}", side[ev] in (True, "cond"), INSTR, line,
                   f"{e}::{v} must be side-effecting; may_have_side_effect says false")
        rep.ob("R4-spec-terminator", f"{e}::{v}", bool(s.get("terminator")) == (ev in term), INSTR, line,
               f"{e}::{v}: terminator per spec={bool(s.get('terminator'))}, is_terminator={ev in term}")

    # ---- R5: cse Expr carries every field of the source variant ------------------------------------
    for ev in sorted(cse_some):
        e, v = ev
        for r in cse_rows[ev]:
            fb = r.field_binders(E[e][v]["fields"])
            used = tab.idents_used(r.body())
            for fld in E[e][v]["fields"]:
                bs = fb.get(fld["name"], ([], None))[0]
                ok = any(b in used for b in bs)
                rep.ob("R5-cse-key-complete", f"{e}::{v}.{fld['name']}", ok, CSE, r.line,
                       f"field `{fld['name']}` of {e}::{v} is not part of the CSE expression: instructions differing only "
                       "in it would be merged")
    rep.floor("R5-cse-key-complete", 15)
    # ---- R9: fixpoint discipline of the value-numbering loop ---------------------------------------------------------
    # cse() iterates `while changed` until no value number changes. Every write to the iterated state (vntable.value_map) inside
    # the loop must be able to raise `changed`; a write that does not stops the iteration while an earlier block argument still
    # holds its optimistic value number, and that argument is then replaced by its initial value.
    tcse = tab.tree(CSE)
    fcse = tab.fn(tcse, "cse")
    loops = [n for n in tab.walk(fcse["body"]) if n.get("k") == "While" and tab.show(n["cond"]) == "changed"]
    if len(loops) != 1:
        raise AnalysisError(f"cse(): expected one `while changed` loop, found {len(loops)}")
    lp = loops[0]

    def chain_to(root, target):
        stack = [(root, [])]
        while stack:
            node, path = stack.pop()
            if node is target:
                return path
            for v_ in (node.values() if isinstance(node, dict) else node if isinstance(node, list) else []):
                if isinstance(v_, (dict, list)):
                    stack.append((v_, path + ([node] if isinstance(node, dict) else [])))
        return []
    writes = [n for n in tab.walk(lp["body"]) if n.get("k") == "MethodCall" and n["method"] in ("insert", "entry", "remove", "extend", "clear") and
              tab.show(n["recv"]).endswith("value_map")]
    n9 = 0
    for w in writes:
        if w["method"] == "entry":
            continue  # the lookup of the entry; the write through it is the nested insert
        n9 += 1
        path = chain_to(lp["body"], w)
        raises = False
        for a in path:
            if a.get("k") in ("Assign", "Binary") and tab.show(a.get("left") or {}) == "changed":
                raises = True  # `changed |= map.insert(..) != Some(vn)` / `changed = changed || ..`
            if a.get("k") == "Block" and any(st.get("k") == "Assign" and tab.show(st["left"]) == "changed" and tab.show(st["right"]).lower() == "true" for st in a["stmts"]):
                raises = True  # `{ changed = true; map.insert(..) }`
        rep.ob("R9-fixpoint-write-raises-changed", f"cse|value_map.{w['method']}#{n9}", raises, CSE, w["l"],
               "a write to the value-number table inside the `while changed` loop cannot set `changed`: the fixpoint iteration can stop although a value number "
               "still changed in the last round")
    rep.floor("R9-fixpoint-write-raises-changed", 2, n9)
    # ... and in the order of the instruction: two instructions are merged when their keys are equal, so the key of a
    # non-commutative operation (cmp lt, sub, div, shifts, gep indices ...) must keep its operands in place. No sorting, swapping or
    # min/max of the operand value numbers; the binders appear in the key in the order of the instruction's fields.
    for ev in sorted(cse_some):
        e, v = ev
        for r in cse_rows[ev]:
            body = r.body()
            reord = sorted({n["method"] for n in tab.walk(body) if n.get("k") == "MethodCall" and
                            re.fullmatch(r"sort|sort_by|sort_by_key|sort_unstable|sort_unstable_by|sort_unstable_by_key|swap|reverse|rev|min|max|minmax|rotate_left|rotate_right", n["method"])} |
                           {tab.last_seg(tab.show(n["func"])) for n in tab.walk(body) if n.get("k") == "Call" and
                            re.search(r"(^|::)(swap|min|max)$", tab.show(n["func"]))})
            fb = r.field_binders(E[e][v]["fields"])
            order_decl = [b for fld in E[e][v]["fields"] for b in fb.get(fld["name"], ([], None))[0]]
            seen_order = []
            for n in tab.walk(body):
                if n.get("k") == "Path" and n.get("path") in order_decl and n["path"] not in seen_order:
                    seen_order.append(n["path"])
            in_order = seen_order == [b for b in order_decl if b in seen_order]
            rep.ob("R5-cse-key-keeps-operand-order", f"{e}::{v}", not reord and in_order, CSE, r.line,
                   f"the CSE key of {e}::{v} re-orders its operands ({reord or seen_order}): `cmp lt a b` and `cmp lt b a` (or `sub a b` / `sub b a`) would get "
                   "the same value number and the dominated one be replaced by the other's result")

    # ---- R6: fn_dedup hashes every non-Value field ----------------------------------------------------
    fh = tab.fn(tab.tree(DEDUP), "hash_fn")
    rows, wild = vtable.build(fh, E, nested=NESTED)
    exceptions = {
        ("InstOp", "ContractCall", "return_type"): "the call's result type is fixed by its uses, all of which are hashed with their types",
        ("FuelVmInstruction", "Log", "log_data"): "derived from the logged type's event attributes; log_ty and log_id are hashed",
    }
    body_calls = {tab.last_seg(n) for k, n, _ in tab.calls(fh["body"])}
    rep.ob("R6-dedup-hashes-operands", "get_operands", "get_operands" in body_calls and "discriminant" in body_calls,
           DEDUP, fh["l"], "hash_fn must hash the opcode discriminant and every operand (get_operands)")
    for ev in variants:
        e, v = ev
        nonval = [f for f in E[e][v]["fields"] if f["ty"] not in VALUE_TYPES or f["ty"] in ("BranchToWithArgs", "Vec < AsmArg >")]
        rs = rows.get(ev, [])
        for fld in nonval:
            key = f"{e}::{v}.{fld['name']}"
            if (e, v, fld["name"]) in exceptions:
                rep.ob("R6-dedup-hashes-field", key, True, DEDUP, fh["l"], "reviewed exception: " + exceptions[(e, v, fld["name"])])
                continue
            ok = any(fld["name"] in r.used_fields(E[e][v]["fields"]) for r in rs)
            rep.ob("R6-dedup-hashes-field", key, ok, DEDUP, rs[0].line if rs else fh["l"],
                   f"non-SSA field `{fld['name']}` ({fld['ty']}) of {e}::{v} never reaches the hasher: functions differing "
                   "only in it are merged on hash equality")
    rep.floor("R6-dedup-hashes-field", 25)

    # ---- R8: inliner clones every field, Values through map_value, blocks through map_block --------------
    fi = tab.fn(tab.tree(INLINE), "inline_instruction")
    rows, wild = vtable.build(fi, E, nested=NESTED)
    for ev in variants:
        e, v = ev
        rs = rows.get(ev, [])
        if not rs:
            rep.ob("R8-inline-clones-field", f"{e}::{v}", False, INLINE, fi["l"], f"inline_instruction has no arm for {e}::{v}")
            continue
        r = rs[0]
        fb = r.field_binders(E[e][v]["fields"])
        for fld in E[e][v]["fields"]:
            if (e, v, fld["name"]) == ("InstOp", "Ret", "1"):
                # a `ret` of the callee becomes a branch to the post-call block carrying the value: its type is not needed
                continue
            bs = fb.get(fld["name"], ([], None))[0]
            used = tab.idents_used(r.body())
            ok = any(b in used for b in bs)
            why = f"field `{fld['name']}` of {e}::{v} is dropped when the instruction is cloned into the caller"
            if ok and fld["ty"] in VALUE_TYPES:
                ok = any(_mapped(r.body(), b, "map_value") for b in bs)
                why = f"SSA field `{fld['name']}` of {e}::{v} is cloned without going through map_value: the inlined body would keep referring to the callee's values"
            rep.ob("R8-inline-clones-field", f"{e}::{v}.{fld['name']}", ok, INLINE, r.line, why)
    rep.floor("R8-inline-clones-field", 100)

    # ---- R7: pass registry ----------------------------------------------------------------------------------
    tpm = tab.tree(PM)
    reg = tab.fn(tpm, "register_known_passes")
    registered = set()
    for k, n, node in tab.calls(reg["body"]):
        if k == "method" and n == "register":
            for k2, n2, _ in tab.calls(node["args"][0] if node["args"] else {}):
                if k2 == "call" and re.match(r"create_\w+_pass$", tab.last_seg(n2)):
                    registered.add(tab.last_seg(n2))
    created = {}
    optdir = os.path.join(os.environ.get("VERIF_REPO", "/repo"), "sway-ir/src/optimize")
    for fn_ in sorted(os.listdir(optdir)):
        if fn_.endswith(".rs"):
            t = tab.tree("sway-ir/src/optimize/" + fn_)
            for f in tab.items(t, "Fn"):
                if re.match(r"create_\w+_pass$", f["name"]) and f.get("pub"):
                    created[f["name"]] = ("sway-ir/src/optimize/" + fn_, f["l"])
    for t_file in ("sway-ir/src/analysis/dominator.rs", "sway-ir/src/analysis/memory_utils.rs", "sway-ir/src/analysis/call_graph.rs"):
        if os.path.exists(os.path.join(os.environ.get("VERIF_REPO", "/repo"), t_file)):
            for f in tab.items(tab.tree(t_file), "Fn"):
                if re.match(r"create_\w+_pass$", f["name"]) and f.get("pub"):
                    created[f["name"]] = (t_file, f["l"])
    for name, (file, line) in sorted(created.items()):
        rep.ob("R7-pass-registered", name, name in registered, file, line,
               f"{name} builds a pass that register_known_passes never registers: it cannot be selected or verified by the pass manager")
    rep.floor("R7-pass-registered", 20)


def _field_used(r, vdef, fld):
    """Field `fld` is bound by the pattern and the binder (or, for struct payloads, each operand sub-field) is used."""
    fb = r.field_binders(vdef["fields"])
    bs, p = fb.get(fld["name"], ([], None))
    if not bs:
        return False
    used = tab.idents_used(r.body())
    if not any(b in used for b in bs):
        return False
    sub = STRUCT_OPERANDS.get(fld["ty"])
    if sub and p is not None:
        if p.get("k") == "PStruct":
            bound = {f["name"]: tab.binders(f["pat"]) for f in p["fields"]}
            return all(any(b in used for b in bound.get(s, [])) for s in sub)
        # whole payload bound to one name: each operand sub-field must be accessed (or the payload passed on whole)
        b = bs[0]
        members = {n["member"] for n in tab.walk(r.body()) if n.get("k") == "Field" and n["base"].get("k") == "Path" and n["base"]["path"] == b}
        passed_whole = any(n.get("k") in ("Call", "MethodCall") and any(a.get("k") == "Path" and a["path"] == b for a in n.get("args", []))
                           for n in tab.walk(r.body()))
        method_on_whole = any(n.get("k") == "MethodCall" and n["recv"].get("k") == "Path" and n["recv"]["path"] == b for n in tab.walk(r.body()))
        return passed_whole or method_on_whole or all(s in members for s in sub)
    return True


def _result_fields(rs, vdef):
    out = set()
    for r in rs:
        out |= r.used_fields(vdef["fields"])
    return out


def _matches_set(fn_node, E):
    """Variants accepted by a `matches!(self, ...)` body."""
    out = set()
    for n in tab.walk(fn_node["body"]):
        if n.get("k") == "Macro" and n["name"] == "matches" and n.get("matches"):
            for v, p in tab.pat_variants(n["matches"]["pat"]):
                _collect_variants(p, E, out)
    return out


def _collect_variants(p, E, out):
    ev = vtable._variant_of(p.get("path", ""), E, "InstOp") if p.get("path") else None
    if ev and ev in NESTED:
        for el in p.get("elems", []):
            for v2, p2 in tab.pat_variants(el):
                ev2 = vtable._variant_of(v2, E, None)
                if ev2:
                    out.add(ev2)
    elif ev:
        out.add(ev)


def _mapped(body, binder, fn_name):
    """`binder` occurs inside a call to fn_name, or in a method chain / closure expression that calls fn_name."""
    for n in tab.walk(body):
        if n.get("k") == "Call" and n["func"].get("k") == "Path" and n["func"]["path"] == fn_name:
            if binder in tab.idents_used(n):
                return True
        if n.get("k") == "MethodCall":
            # chain rooted at the binder containing a call/reference to fn_name
            root = n
            while root.get("k") in ("MethodCall", "Field"):
                root = root["recv"] if root["k"] == "MethodCall" else root["base"]
            if root.get("k") == "Path" and root["path"] == binder:
                ids = tab.idents_used(n)
                if fn_name in ids:
                    return True
    return False
