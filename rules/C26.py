"""C26 Incremental (LSP) compilation agrees with a fresh compilation — cache validity clauses.

R1 each validity predicate reads every staleness field of a cache entry: parse: parsed.modified_time, common.hash,
   parsed.version, common.dependencies; typed: typed.version, common.dependencies
R2 validity is transitive: each predicate calls itself on every dependency path of the entry (the recursive call's path
   argument comes from iterating `entry.common.dependencies`), conjoined with the entry's own check
R3 reuse only behind the predicate: the cached programs entry and the cached typed module are returned only on the true
   edge of the corresponding predicate evaluated on the same path
R4 version comparison direction: a cached entry is current iff the file version is not newer than the cached one (v <= cached)
"""
import re
from lib import mir, tab, panics
from lib.common import AnalysisError

LEVEL = "other"
LIBRS = "sway-core/src/lib.rs"
ENTRY = "sway_core::query_engine"


def fam(F, f):
    out = [f]
    todo = [f]
    while todo:
        x = todo.pop()
        for c in F.children.get(x.id, []):
            out.append(F.fns[c])
            todo.append(F.fns[c])
    return out


def run(rep):
    F = mir.Facts(["sway_core"])
    rep.explanation = (
        "Decides the structure of the two cache-validity predicates and of the reuse sites: every staleness field is consulted, "
        "validity is checked transitively over the recorded dependencies, cached results are returned only on the predicate's true "
        "edge for the same path, and the version comparison has the right direction. That a reused entry equals what a fresh "
        "compilation would produce (engine garbage collection, diagnostics replay) is not decided.")
    rep.trusted = ["rustc MIR", "syn", "ModuleCacheEntry.common.dependencies lists every submodule path (written by the parser)"]
    preds = {
        "parse": (F.fn("sway_core::is_parse_module_cache_up_to_date"), {"modified_time", "hash", "version", "dependencies"}),
        "typed": (F.fn("sway_core::is_ty_module_cache_up_to_date"), {"version", "dependencies"}),
    }
    for kind, (p, need) in preds.items():
        members = fam(F, p)
        read = set()
        for g in members:
            for adt, var, fl in mir.fields_read(g):
                if adt.startswith(ENTRY):
                    read.add(fl)
        for fl in sorted(need):
            rep.ob("R1-staleness-field-read", f"{kind}|{fl}", fl in read, p.file, p.lo,
                   f"{p.name.split('::')[-1]} never reads `{fl}` of the cache entry: an edit that only changes that datum leaves the stale entry in use")
        # R2: recursive call inside a closure driven by an iterator over `dependencies`, result conjoined
        rec = [(g, t) for g in members for _, t in g.calls() if mir.callee_id(t) == p.id]
        rep.ob("R2-validity-is-transitive", f"{kind}|recursive-call", len(rec) >= 1, p.file, p.lo,
               f"{p.name.split('::')[-1]} does not call itself on the entry's dependencies: an edit in a submodule that is not a direct "
               "dependency of the root leaves the root's cached result in use")
        if rec:
            g, t = rec[0]
            # the path argument is the closure's parameter (the iterated dependency), not the outer `path`
            a = t["a"][1]
            nm = panics.origin_var(g, a)
            dep_driven = g.kind == "closure" and nm not in ("path", "<captured>")
            # the closure is the argument of an `all` over an iterator of `common.dependencies`
            holders = [h for h in members if any(s_["r"].get("closure") == g.id for _, _, s_ in h.stmts())]
            via_all = False
            over_deps = False
            for h in holders:
                for bi, tt in h.calls():
                    if re.search(r"Iterator::all$", tt.get("fp", "")):
                        via_all = True
                for adt, var, fl in mir.fields_read(h):
                    if fl == "dependencies":
                        over_deps = True
            rep.ob("R2-validity-is-transitive", f"{kind}|over-all-dependencies", dep_driven and via_all and over_deps, g.file, t["ln"],
                   "the recursive validity check must run for every element of `entry.common.dependencies` (Iterator::all over the dependencies, "
                   f"argument = the iterated path); found parameter-driven: {dep_driven}, Iterator::all: {via_all}, iterates dependencies: {over_deps}")
    rep.floor("R1-staleness-field-read", 6)
    rep.floor("R2-validity-is-transitive", 4)
    # the own check and the recursive check are conjoined (syntax tree: `cache_up_to_date && <deps>.all(..)`)
    t = tab.tree(LIBRS)
    for fname in ("is_parse_module_cache_up_to_date", "is_ty_module_cache_up_to_date"):
        fn_ = tab.fn(t, fname)
        conj = False
        for n in tab.walk(fn_["body"]):
            if n.get("k") == "Binary" and n.get("op") == "&&":
                l, r = n["left"], n["right"]
                if l.get("k") == "Path" and any(c.get("method") == "all" for c in tab.find(r, "MethodCall")) and \
                        any(x.get("member") == "dependencies" for x in tab.find(r, "Field")):
                    conj = True
        rep.ob("R2-own-check-and-dependencies-conjoined", fname, conj, LIBRS, fn_.get("l", 0),
               f"{fname} must return `<own check> && dependencies.iter().all(<same predicate>)`")
        # R4 version direction: `v <= cached`
        cmp_ok = False
        cmps = [n for n in tab.walk(fn_["body"]) if n.get("k") == "Binary" and n.get("op") in ("<=", "<", ">=", ">", "==")]
        for n in cmps:
            if n["op"] == "<=" and n["left"].get("path") == "v":
                cmp_ok = True
            if n["op"] == ">=" and n["right"].get("path") == "v":
                cmp_ok = True
        bad = [n for n in cmps if n["op"] in ("<", ">", "==") and "v" in (n["left"].get("path"), n["right"].get("path"))]
        rep.ob("R4-version-comparison", fname, cmp_ok and not bad, LIBRS, fn_.get("l", 0),
               "a cached entry is current iff the LSP file version `v` is <= the cached version; any other comparison keeps a stale entry "
               "or recompiles forever")
    # ---- R3 reuse sites --------------------------------------------------------------------------------------------------
    pp = preds["parse"][0]
    tp = preds["typed"][0]
    n3 = 0
    for f in F.fns.values():
        if f.exp:
            continue
        for bi, tt in f.calls():
            if (tt.get("fp", "")).endswith("QueryEngine::get_programs_cache_entry"):
                n3 += 1
                ok = _behind_true_edge(f, bi, pp, tt)
                rep.ob("R3-reuse-behind-predicate", f"{f.name.split('::{closure')[0]}|programs-cache", ok, f.file, tt["ln"],
                       "the cached Programs entry is fetched on a path that is not the true edge of is_parse_module_cache_up_to_date for the same path")
    g = F.fn("sway_core::language::ty::module::TyModule::get_cached_ty_module_if_up_to_date") if F.by_name.get("sway_core::language::ty::module::TyModule::get_cached_ty_module_if_up_to_date") else None
    if g is None:
        cands = [x for x in F.fns.values() if x.name.endswith("::get_cached_ty_module_if_up_to_date")]
        g = cands[0] if len(cands) == 1 else None
    rep.ob("R3-typed-reuse-anchor", "get_cached_ty_module_if_up_to_date", g is not None, "sway-core/src/semantic_analysis/module.rs", 0, "anchor not found")
    if g is not None:
        members = fam(F, g)
        okt = False
        for h in members:
            for bi, tt in h.calls():
                if mir.callee_id(tt) == tp.id:
                    # `Some(cached)` is constructed only on the true edge
                    somes = [b for b, si, s_ in h.stmts() if s_["r"]["k"] == "agg" and s_["r"].get("var") == "Some" and s_["d"]["l"] == 0]
                    for sbi, call, true_s, false_s in panics.switch_guards(h):
                        if call is tt and somes:
                            okt = all(h.dominates(true_s, b) for b in somes) and h.preds()[true_s] == [sbi]
        n3 += 1
        rep.ob("R3-reuse-behind-predicate", f"{g.name}|typed-module", okt, g.file, g.lo,
               "the cached typed module is returned on a path that is not the true edge of is_ty_module_cache_up_to_date")
        # and TyModule::type_check uses only this accessor to read `typed` cache entries
    rep.floor("R3-reuse-behind-predicate", 2, n3)
    rule_commit_discipline(rep)
    rule_source_buffer(rep)
    rule_versionless_requests(rep)


def _behind_true_edge(f, blk, pred, call_t):
    for bi, tt in f.calls():
        if mir.callee_id(tt) == pred.id:
            for sbi, call, true_s, false_s in panics.switch_guards(f):
                if call is tt:
                    same_path = panics.root_local(f, tt["a"][1]) == panics.root_local(f, call_t["a"][1]) if len(call_t.get("a", [])) > 1 else True
                    return f.dominates(true_s, blk) and f.preds()[true_s] == [sbi] and same_path
    return False


def _ancestors(root, target):
    """chain of nodes from root down to target (identity), or None"""
    stack = [(root, [root])]
    while stack:
        n, path = stack.pop()
        if n is target:
            return path
        it = n.values() if isinstance(n, dict) else n if isinstance(n, list) else []
        for v in it:
            if isinstance(v, (dict, list)):
                stack.append((v, path + ([v] if isinstance(v, dict) else [])))
    return None


def rule_commit_discipline(rep):
    """R5: the compilation thread works on copy-on-write caches; its local changes (among them a parent module's dependency list,
    which omits a submodule that failed to parse) reach the shared caches only through QueryEngine::commit(). commit() must be
    reached only when the compilation produced a program: inside the `Ok` arm of the parse_project match and the `Some` arm of the
    program lookup (findings/F13-probe shows the stale-diagnostics history this prevents)."""
    SS = "sway-lsp/src/server_state.rs"
    t = tab.tree(SS)
    commits = [n for n in tab.walk(t) if n.get("k") == "MethodCall" and n["method"] == "commit" and not n["args"] and ".qe()" in tab.show(n["recv"])]
    everywhere = [n for rel in ("sway-lsp/src/core/session.rs", "sway-lsp/src/handlers/notification.rs", "sway-lsp/src/handlers/request.rs", "forc-pkg/src/pkg.rs")
                  for n in tab.walk(tab.tree(rel)) if n.get("k") == "MethodCall" and n["method"] == "commit" and not n["args"] and ".qe()" in tab.show(n["recv"])]
    rep.ob("R5-commit-only-in-the-compilation-thread", "qe().commit()", bool(commits) and not everywhere, SS, commits[0]["l"] if commits else 0,
           f"QueryEngine::commit() must only be called by the compilation thread; found {len(commits)} call(s) in server_state.rs and {len(everywhere)} elsewhere")
    for ci, c in enumerate(commits):
        path = _ancestors(t, c)
        arms = []
        for i_, n in enumerate(path):
            if n.get("k") == "Match":
                arm = [a for a in n["arms"] if any(x is c for x in tab.walk(a["body"]))]
                if arm:
                    arms.append((tab.show(n.get("expr") or {}), tab.show(arm[0]["pat"])))
        ok_parse = any("parse_project(" in sc and pat.startswith("Ok") for sc, pat in arms)
        ok_prog = any(pat.startswith("Some") for sc, pat in arms)
        rep.ob("R5-commit-only-after-a-successful-compilation", f"qe().commit()#{ci + 1}", ok_parse and ok_prog, SS, c["l"],
               f"commit() must sit in the Ok arm of `match parse_project(..)` and the Some arm of the program lookup; enclosing arms: {arms}")


def rule_source_buffer(rep):
    """R6: the engines outlive a compilation, and with them the text buffers of the source engine. parse_module_tree re-reads a
    file and asks get_or_create_source_buffer for the buffer to parse; the buffer kept from the previous compilation may only be
    handed out when its text equals the text just read. The decision must therefore be a comparison of the two `text`s themselves
    -- a proxy (length, line table, hash of something else) lets an edit that keeps the proxy go unseen by every later stage."""
    F = mir.Facts(["sway_types"])
    g = F.fn("sway_types::source_engine::SourceEngine::get_or_create_source_buffer")

    def is_text(o):
        return any(isinstance(p, list) and p[0] == "f" and p[3] == "text" for p in o.get("p", []))
    defs = mir.defs_of(g)

    def text_operand(o, depth=4):
        while depth > 0 and "l" in o:
            depth -= 1
            if is_text(o):
                return True
            ds = defs.get(o["l"], [])
            if len(ds) != 1:
                return False
            _, _, k, srcs, node = ds[0]
            if k in ("use", "ref") and srcs:
                o = srcs[0]
                continue
            return False
        return False
    cmps = [(bi, t) for bi, t in g.calls() if re.search(r"PartialEq(<.*>)?>::(eq|ne)$", t.get("rn") or t.get("fp", "")) and len(t.get("a", [])) == 2 and
            all(text_operand(a) for a in t["a"])]
    # the replacement `*existing = source` : a statement assigning through the get_mut result; and the hand-out of the existing buffer
    guards = panics.switch_guards(g)
    guarded = [1 for sbi, call, true_s, false_s in guards if any(call is t for _, t in cmps)]
    rep.ob("R6-kept-source-buffer-has-the-same-text", g.name, bool(cmps) and bool(guarded), g.file, cmps[0][1]["ln"] if cmps else g.lo,
           "the cached text buffer of a file is kept or replaced without comparing its text with the text just read: an edit that preserves whatever is "
           "compared instead (length, line starts) is parsed, type-checked and reported from the old text")
    other = [(bi, t) for bi, t in g.calls() if re.search(r"PartialEq(<.*>)?>::(eq|ne)$", t.get("rn") or t.get("fp", "")) and not any(t is c for _, c in cmps)]
    rep.note(f"R6: {len(cmps)} text comparison(s), {len(other)} other comparison(s) in get_or_create_source_buffer")


def rule_versionless_requests(rep):
    """R7: both validity predicates read "no version for this file" as "unchanged". didOpen / didSave requests carry no version, and
    such a request replaces a queued didChange request (channel of capacity 1) and cancels a running one. It must therefore be sent
    with the version of the document's latest change, or the caches are taken to be current and the change is never compiled
    (findings/F18). Decided on the syntax tree of handlers/notification.rs:
    - send_new_compilation_request derives the version it uses from its parameter *or* the remembered client version, before it
      builds the file-version table and the CompilationContext
    - handle_did_change_text_document remembers the client version of every change"""
    rel = "sway-lsp/src/handlers/notification.rs"
    t = tab.tree(rel)
    f = tab.fn(t, "send_new_compilation_request")
    lets = tab.lets(f["body"])
    vdefs = [(l, tab.show(i_)) for l, names, _, i_ in lets if names == ["version"] and i_ is not None]
    fv = [n for n in tab.walk(f["body"]) if n.get("k") == "Call" and tab.show(n["func"]) == "file_versions"]
    ok_def = any(re.search(r"^version\.(or_else|or)\(.*client_version\(", d) for _, d in vdefs)
    ok_order = bool(vdefs) and bool(fv) and min(l for l, _ in vdefs) <= fv[0]["l"] and "version" in tab.show(fv[0])
    ctx = [n for n in tab.walk(f["body"]) if n.get("k") == "Struct" and n["path"].endswith("CompilationContext")]
    ok_ctx = bool(ctx) and any(fl["name"] == "version" and tab.show(fl["expr"]) == "version" for fl in ctx[0]["fields"])
    rep.ob("R7-versionless-request-carries-the-latest-change", "send_new_compilation_request", ok_def and ok_order and ok_ctx, rel, f["l"],
           "a compilation request without a version (didOpen, didSave) must be given the version of the document's latest change before the file-version "
           "table is built: with no version the caches count as current, and a change whose compilation this request cancels or replaces is never compiled")
    g = tab.fn(t, "handle_did_change_text_document")
    setc = [n for n in tab.walk(g["body"]) if n.get("k") == "MethodCall" and n["method"] == "set_client_version" and "params.text_document.version" in tab.show(n)]
    send = [n for n in tab.walk(g["body"]) if n.get("k") == "Call" and tab.show(n["func"]) == "send_new_compilation_request"]
    rep.ob("R7-change-version-remembered", "handle_did_change_text_document", len(setc) == 1 and bool(send) and setc[0]["l"] < send[0]["l"], rel, g["l"],
           "didChange must record the client's version of the document before it requests the compilation")

