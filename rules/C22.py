"""C22 Build order respects dependencies.

(a) pkg::compilation_order returns, unmodified, the result of petgraph::algo::toposort over the *reversed* graph and
    maps its cycle error to Err;  (c) every edge inserted into a pkg::Graph runs dependant -> dependency;
(d) consumers walk the stored order forward and nothing else writes it.
With petgraph's toposort contract (a permutation of all nodes with every edge forward, or Err(Cycle)) this is the property."""
import re
from lib import mir, panics
from lib.common import AnalysisError

LEVEL = "proof"
CO = "forc_pkg::pkg::compilation_order"


def rname(r):
    if not r:
        return "?"
    if r[0] == "call":
        return "call:" + (r[1].get("rn") or r[1].get("fp", ""))
    return f"{r[0]}:{r[1]}"


def run(rep):
    F = mir.Facts(["forc_pkg", "forc_util", "forc_test", "sway_lsp"])
    rep.explanation = (
        "Decides the whole stated clause structurally: the order handed to every consumer is exactly petgraph's "
        "topological sort of the reversed dependency graph (dependencies first, each node once, Err on any cycle "
        "including self-loops), all graph edges are created dependant -> dependency, and consumers iterate forward.")
    rep.trusted = ["petgraph::algo::toposort contract (permutation of all nodes respecting edges, or Err(Cycle))",
                   "rustc MIR + resolution"]
    fn = F.fn(CO)
    # ---- (a) ------------------------------------------------------------------------------------------
    topo = [(bi, t) for bi, t in fn.calls() if (t.get("fp", "")).endswith("petgraph::algo::toposort")]
    rep.ob("Ra-uses-toposort", CO, len(topo) == 1, fn.file, fn.lo,
           f"compilation_order must obtain the order from petgraph::algo::toposort (found {len(topo)} calls)")
    if len(topo) == 1:
        bi, t = topo[0]
        rev = "petgraph::visit::reversed::Reversed<" in t.get("fn", "") or "Reversed<" in t.get("fn", "")
        rep.ob("Ra-toposort-on-reversed-graph", CO, rev, fn.file, t["ln"],
               "toposort is not instantiated on petgraph::visit::Reversed: edges run dependant -> dependency, so an "
               f"un-reversed sort lists dependants first (instantiation: {t.get('fn','')[:160]})")
        # the graph argument derives from the function's parameter
        defs = mir.defs_of(fn)
        o, ok_arg, steps = t["a"][0], False, 0
        while "l" in o and steps < 12:
            steps += 1
            if o["l"] == 1:
                ok_arg = True
                break
            ds = defs.get(o["l"], [])
            if len(ds) != 1 or ds[0][2] not in ("use", "ref", "agg") or not ds[0][3]:
                break
            if ds[0][2] == "agg" and "Reversed" not in ds[0][4]["r"].get("adt", ""):
                break
            o = ds[0][3][0]
        rep.ob("Ra-toposort-of-the-argument-graph", CO, ok_arg, fn.file, t["ln"],
               "toposort is not applied to (a Reversed view of) the graph passed to compilation_order")
        # the return place is assigned exactly once, by Result::map_err applied to the toposort result
        defs = mir.defs_of(fn)
        rd = [d for d in defs.get(0, []) if not fn.bbs[d[0]].get("cu")]
        ok = False
        detail = f"return value has {len(rd)} definitions"
        if len(rd) == 1 and rd[0][2] == "call":
            node = rd[0][4]
            nm = node.get("fp", "")
            if nm.endswith("Result::<T, E>::map_err") and node["a"] and node["a"][0].get("l") == t["d"]["l"]:
                ok = True
            else:
                detail = f"return value is produced by {nm}"
        rep.ob("Ra-result-is-toposort-result", CO, ok, fn.file, fn.lo,
               "the value returned by compilation_order is not `toposort(..).map_err(..)`: " + detail +
               " (an order that is post-processed, or an Err that is swallowed, is outside the toposort contract)")
    # ---- (c) edges dependant -> dependency ------------------------------------------------------------------
    expected = {
        "forc_pkg::pkg::fetch_deps": ("var:node", r"^(var:dep_node|call:.*(Entry|OccupiedEntry|VacantEntry|add_node).*)$"),
        "forc_pkg::lock::Lock::to_graph": (r"call:.*HashMap<K, V, S, A> as core::ops::index::Index<&Q>>::index$", r"call:.*HashMap::<K, V, S, A>::get$|call:.*ok_or_else$|call:.*Try>::branch$"),
    }
    n_sites = 0
    for f in F.fns.values():
        if f.crate != "forc_pkg":
            continue
        for bi, t in f.calls():
            nm = t.get("fp", "")
            if re.search(r"StableGraph::<N, E, Ty, Ix>::(add_edge|update_edge)$|Graph::<N, E, Ty, Ix>::(add_edge|update_edge)$", nm):
                slf = f.locals[t["a"][0]["l"]] if "l" in t["a"][0] else ""
                if "forc_pkg::pkg::Pinned" not in slf and "Pinned" not in t.get("fn", ""):
                    continue
                n_sites += 1
                src, dst = panics.root_call(f, t["a"][1]), panics.root_call(f, t["a"][2])
                root = f.name.split("::{closure")[0]
                exp = expected.get(root)
                key = f"{root}|{tab_last(nm)}"
                if not exp:
                    rep.ob("Rc-edge-direction", key, False, f.file, t["ln"],
                           f"new edge-creation site in {f.name}: add it to the reviewed direction table (source={rname(src)}, target={rname(dst)})")
                    continue
                ok = bool(re.search(exp[0], rname(src))) and bool(re.search(exp[1], rname(dst))) and rname(src) != rname(dst)
                rep.ob("Rc-edge-direction", key, ok, f.file, t["ln"],
                       f"edge must run from the package being expanded to its dependency; found source={rname(src)} target={rname(dst)}")
    rep.floor("Rc-edge-direction", 2, n_sites)
    # ---- (d) consumers ------------------------------------------------------------------------------------------
    writers, readers = [], []
    for f in F.fns.values():
        if f.exp:
            continue  # derive-generated (Clone/Debug)
        reads = writes = False
        for bi, bb in enumerate(f.bbs):
            if bb.get("cu"):
                continue
            for s in bb["s"]:
                r = s["r"]
                if r["k"] == "agg" and r.get("adt") == "forc_pkg::pkg::BuildPlan":
                    writes = True
                for p in s["d"].get("p", []):
                    if isinstance(p, list) and p[0] == "f" and p[1] == "forc_pkg::pkg::BuildPlan" and p[3] == "compilation_order":
                        writes = True
                for o in r.get("o", []):
                    for p in o.get("p", []) if "l" in o else []:
                        if isinstance(p, list) and p[0] == "f" and p[1] == "forc_pkg::pkg::BuildPlan" and p[3] == "compilation_order":
                            reads = True
            t = bb["t"]
            if t["k"] == "call" and (t.get("fp", "")).endswith("forc_pkg::pkg::BuildPlan::compilation_order"):
                reads = True
        if writes:
            writers.append(f)
        if reads:
            readers.append(f)
    for f in writers:
        # the field is initialised from a call to compilation_order in the same function
        has = any((t.get("fp", "")) == CO for _, t in f.calls())
        rep.ob("Rd-order-written-from-compilation_order", f.name, has, f.file, f.lo,
               "BuildPlan is constructed / its compilation_order written in a function that does not call pkg::compilation_order")
    rep.floor("Rd-order-written-from-compilation_order", 2)
    # ... and it is that very value: moved from the call into the field, never re-ordered or edited on the way
    adt = F.adts.get("forc_pkg::pkg::BuildPlan")
    fidx = [i for i, fl in enumerate(adt["variants"][0]["fields"]) if fl["name"] == "compilation_order"] if adt else []
    if not fidx:
        raise AnalysisError("C22: field BuildPlan.compilation_order not found in the ADT facts")
    n_w = 0
    for f in writers:
        defs = mir.defs_of(f)
        for bi, si, st in f.stmts():
            r = st["r"]
            if not (r["k"] == "agg" and r.get("adt") == "forc_pkg::pkg::BuildPlan"):
                continue
            n_w += 1
            o = r["o"][fidx[0]]
            chain = set()
            ok_root = False
            for _ in range(12):
                if "l" not in o:
                    break
                chain.add(o["l"])
                ds = defs.get(o["l"], [])
                if len(ds) != 1:
                    break
                _, _, k, srcs, node = ds[0]
                if k == "use" and srcs:
                    o = srcs[0]
                    continue
                if k == "call":
                    fp = node.get("fp", "")
                    if fp == CO:
                        ok_root = True
                        break
                    if re.search(r"Try(>)?::branch$", fp) and node.get("a"):
                        o = node["a"][0]
                        continue
                break
            touched = []
            for bj, sj, s2 in f.stmts():
                r2 = s2["r"]
                if r2["k"] == "ref" and r2.get("m") and any("l" in x and x["l"] in chain for x in r2.get("o", [])):
                    touched.append(s2.get("ln"))
            for bj, t in f.calls():
                fp = t.get("fp", "")
                if fp == CO or re.search(r"Try(>)?::branch$|FromResidual", fp):
                    continue
                if any("l" in a and a["l"] in chain and not a.get("p") for a in t.get("a", [])):
                    touched.append(t.get("ln"))
            rep.ob("Rd-order-stored-unmodified", f.name, ok_root and not touched, f.file, touched[0] if touched else st.get("ln", f.lo),
                   ("the value stored in BuildPlan.compilation_order is not the value returned by pkg::compilation_order" if not ok_root else
                    "the order returned by pkg::compilation_order is mutably borrowed / passed on before it is stored (re-ordered, filtered or extended): "
                    "the toposort guarantee does not survive an edit of the list"))
    rep.floor("Rd-order-stored-unmodified", 2, n_w)
    for f in readers:
        bad = [t for _, t in f.calls() if re.search(r"Iterator::rev$|DoubleEndedIterator::(next_back|rfold|rfind)$|<impl \[T\]>::reverse$|Iterator::rposition$",
                                                  t.get("fp", ""))]
        rep.ob("Rd-order-consumed-forward", f.name, not bad, f.file, bad[0]["ln"] if bad else f.lo,
               "a function that reads BuildPlan::compilation_order reverses an iterator/slice: dependants would be built before their dependencies")
    rep.floor("Rd-order-consumed-forward", 4)
    rep.analysed = dict(edge_sites=n_sites, order_writers=[f.name for f in writers], order_readers=[f.name for f in readers])


def tab_last(nm):
    return nm.split("::")[-1]
