"""C22 Build order respects dependencies.

(a) pkg::compilation_order returns, unmodified, the result of petgraph::algo::toposort over the *reversed* graph and
    maps its cycle error to Err;  (c) every edge inserted into a pkg::Graph runs dependant -> dependency;
(d) consumers walk the stored order forward and nothing else writes it.
With petgraph's toposort contract (a permutation of all nodes with every edge forward, or Err(Cycle)) this is the property."""
import re
from lib import mir, panics

LEVEL = "proof"
CO = "forc_pkg::pkg::compilation_order"


def rname(r):
    if not r:
        return "?"
    if r[0] == "call":
        return "call:" + (r[1].get("rn") or r[1].get("fp", ""))
    return f"{r[0]}:{r[1]}"


def run(rep):
    F = mir.Facts(["forc_pkg", "forc_util", "forc_test", "sway_lsp"])
    rep.explanation = (
        "Decides the whole stated clause structurally: the order handed to every consumer is exactly petgraph's "
        "topological sort of the reversed dependency graph (dependencies first, each node once, Err on any cycle "
        "including self-loops), all graph edges are created dependant -> dependency, and consumers iterate forward.")
    rep.trusted = ["petgraph::algo::toposort contract (permutation of all nodes respecting edges, or Err(Cycle))",
                   "rustc MIR + resolution"]
    fn = F.fn(CO)
    # ---- (a) ------------------------------------------------------------------------------------------
    topo = [(bi, t) for bi, t in fn.calls() if (t.get("fp", "")).endswith("petgraph::algo::toposort")]
    rep.ob("Ra-uses-toposort", CO, len(topo) == 1, fn.file, fn.lo,
           f"compilation_order must obtain the order from petgraph::algo::toposort (found {len(topo)} calls)")
    if len(topo) == 1:
        bi, t = topo[0]
        rev = "petgraph::visit::reversed::Reversed<" in t.get("fn", "") or "Reversed<" in t.get("fn", "")
        rep.ob("Ra-toposort-on-reversed-graph", CO, rev, fn.file, t["ln"],
               "toposort is not instantiated on petgraph::visit::Reversed: edges run dependant -> dependency, so an "
               f"un-reversed sort lists dependants first (instantiation: {t.get('fn','')[:160]})")
        # the graph argument derives from the function's parameter
        defs = mir.defs_of(fn)
        o, ok_arg, steps = t["a"][0], False, 0
        while "l" in o and steps < 12:
            steps += 1
            if o["l"] == 1:
                ok_arg = True
                break
            ds = defs.get(o["l"], [])
            if len(ds) != 1 or ds[0][2] not in ("use", "ref", "agg") or not ds[0][3]:
                break
            if ds[0][2] == "agg" and "Reversed" not in ds[0][4]["r"].get("adt", ""):
                break
            o = ds[0][3][0]
        rep.ob("Ra-toposort-of-the-argument-graph", CO, ok_arg, fn.file, t["ln"],
               "toposort is not applied to (a Reversed view of) the graph passed to compilation_order")
        # the return place is assigned exactly once, by Result::map_err applied to the toposort result
        defs = mir.defs_of(fn)
        rd = [d for d in defs.get(0, []) if not fn.bbs[d[0]].get("cu")]
        ok = False
        detail = f"return value has {len(rd)} definitions"
        if len(rd) == 1 and rd[0][2] == "call":
            node = rd[0][4]
            nm = node.get("fp", "")
            if nm.endswith("Result::<T, E>::map_err") and node["a"] and node["a"][0].get("l") == t["d"]["l"]:
                ok = True
            else:
                detail = f"return value is produced by {nm}"
        rep.ob("Ra-result-is-toposort-result", CO, ok, fn.file, fn.lo,
               "the value returned by compilation_order is not `toposort(..).map_err(..)`: " + detail +
               " (an order that is post-processed, or an Err that is swallowed, is outside the toposort contract)")
    # ---- (c) edges dependant -> dependency ------------------------------------------------------------------
    expected = {
        "forc_pkg::pkg::fetch_deps": ("var:node", r"^(var:dep_node|call:.*(Entry|OccupiedEntry|VacantEntry|add_node).*)$"),
        "forc_pkg::lock::Lock::to_graph": (r"call:.*HashMap<K, V, S, A> as core::ops::index::Index<&Q>>::index$", r"call:.*HashMap::<K, V, S, A>::get$|call:.*ok_or_else$|call:.*Try>::branch$"),
    }
    n_sites = 0
    for f in F.fns.values():
        if f.crate != "forc_pkg":
            continue
        for bi, t in f.calls():
            nm = t.get("fp", "")
            if re.search(r"StableGraph::<N, E, Ty, Ix>::(add_edge|update_edge)$|Graph::<N, E, Ty, Ix>::(add_edge|update_edge)$", nm):
                slf = f.locals[t["a"][0]["l"]] if "l" in t["a"][0] else ""
                if "forc_pkg::pkg::Pinned" not in slf and "Pinned" not in t.get("fn", ""):
                    continue
                n_sites += 1
                src, dst = panics.root_call(f, t["a"][1]), panics.root_call(f, t["a"][2])
                root = f.name.split("::{closure")[0]
                exp = expected.get(root)
                key = f"{root}|{tab_last(nm)}"
                if not exp:
                    rep.ob("Rc-edge-direction", key, False, f.file, t["ln"],
                           f"new edge-creation site in {f.name}: add it to the reviewed direction table (source={rname(src)}, target={rname(dst)})")
                    continue
                ok = bool(re.search(exp[0], rname(src))) and bool(re.search(exp[1], rname(dst))) and rname(src) != rname(dst)
                rep.ob("Rc-edge-direction", key, ok, f.file, t["ln"],
                       f"edge must run from the package being expanded to its dependency; found source={rname(src)} target={rname(dst)}")
    rep.floor("Rc-edge-direction", 2, n_sites)
    # ---- (d) consumers ------------------------------------------------------------------------------------------
    writers, readers = [], []
    for f in F.fns.values():
        if f.exp:
            continue  # derive-generated (Clone/Debug)
        reads = writes = False
        for bi, bb in enumerate(f.bbs):
            if bb.get("cu"):
                continue
            for s in bb["s"]:
                r = s["r"]
                if r["k"] == "agg" and r.get("adt") == "forc_pkg::pkg::BuildPlan":
                    writes = True
                for p in s["d"].get("p", []):
                    if isinstance(p, list) and p[0] == "f" and p[1] == "forc_pkg::pkg::BuildPlan" and p[3] == "compilation_order":
                        writes = True
                for o in r.get("o", []):
                    for p in o.get("p", []) if "l" in o else []:
                        if isinstance(p, list) and p[0] == "f" and p[1] == "forc_pkg::pkg::BuildPlan" and p[3] == "compilation_order":
                            reads = True
            t = bb["t"]
            if t["k"] == "call" and (t.get("fp", "")).endswith("forc_pkg::pkg::BuildPlan::compilation_order"):
                reads = True
        if writes:
            writers.append(f)
        if reads:
            readers.append(f)
    for f in writers:
        # the field is initialised from a call to compilation_order in the same function
        has = any((t.get("fp", "")) == CO for _, t in f.calls())
        rep.ob("Rd-order-written-from-compilation_order", f.name, has, f.file, f.lo,
               "BuildPlan is constructed / its compilation_order written in a function that does not call pkg::compilation_order")
    rep.floor("Rd-order-written-from-compilation_order", 2)
    for f in readers:
        bad = [t for _, t in f.calls() if re.search(r"Iterator::rev$|DoubleEndedIterator::(next_back|rfold|rfind)$|<impl \[T\]>::reverse$|Iterator::rposition$",
                                                  t.get("fp", ""))]
        rep.ob("Rd-order-consumed-forward", f.name, not bad, f.file, bad[0]["ln"] if bad else f.lo,
               "a function that reads BuildPlan::compilation_order reverses an iterator/slice: dependants would be built before their dependencies")
    rep.floor("Rd-order-consumed-forward", 4)
    rep.analysed = dict(edge_sites=n_sites, order_writers=[f.name for f in writers], order_readers=[f.name for f in readers])


def tab_last(nm):
    return nm.split("::")[-1]
