"""C24 LSP compilation scheduling neither hangs nor drops edits — protocol rules on the shared scheduling state.

State: is_compiling, retrigger_compilation (AtomicBool), cb_tx/cb_rx (bounded(1) channel), finished_compilation
(tokio Notify, only ever signalled with notify_waiters: no stored permit), last_compilation_state.
R1 no lost wake-up: every waiter creates the Notified future before it reads the condition in each loop iteration
R2 no stuck flag: a handler that announces a compilation with is_compiling.store(true) does so before it sends the request
R3 no stale cancellation: the worker clears retrigger_compilation after receiving a request and before compiling it
R4 the worker resets is_compiling and then notifies on every path of an iteration; notification is notify_waiters only
R5 who-may-touch: the scheduling state is written only by the reviewed functions
"""
import re
from lib import mir, panics

LEVEL = "other"
STORE = re.compile(r"core::sync::atomic::(Atomic::<bool>|AtomicBool)::store$")
LOAD = re.compile(r"core::sync::atomic::(Atomic::<bool>|AtomicBool)::load$")
SEND = re.compile(r"crossbeam_channel::channel::Sender::<T>::(send|try_send)$")
RECV = re.compile(r"crossbeam_channel::channel::Receiver::<T>::recv$")
WRITERS = {
    "is_compiling": {"sway_lsp::server_state::ServerState::spawn_compilation_thread", "sway_lsp::handlers::notification::handle_did_open_text_document"},
    "retrigger_compilation": {"sway_lsp::server_state::ServerState::spawn_compilation_thread", "sway_lsp::handlers::notification::send_new_compilation_request",
                              "sway_lsp::server_state::ServerState::shutdown_server"},
}


def atomic_name(f, t):
    """which ServerState atomic a load/store touches: by field projection or by the captured/local variable name."""
    a = t["a"][0]
    nm = panics.origin_var(f, a)
    if nm:
        nm = nm.split(".")[-1]
    if nm in ("is_compiling", "retrigger_compilation"):
        return nm
    if f.kind == "closure":
        from lib import slices
        caps = [l[1] for l in slices.backward_slice(f, a)["leaves"] if l[0] == "capture"]
        if len(caps) == 1 and caps[0] in ("is_compiling", "retrigger_compilation"):
            return caps[0]
    # follow to a field read of ServerState
    defs = mir.defs_of(f)
    o, depth = a, 10
    while depth > 0 and "l" in o:
        depth -= 1
        for p in o.get("p", []):
            if isinstance(p, list) and p[0] == "f" and p[3] in ("is_compiling", "retrigger_compilation"):
                return p[3]
        ds = defs.get(o["l"], [])
        if len(ds) != 1 or not ds[0][3]:
            break
        o = ds[0][3][0]
    return nm


def const_bool(t):
    a = t["a"][1] if len(t.get("a", [])) > 1 else {}
    c = a.get("c", "")
    return True if "true" in c else False if "false" in c else None


def fam(f):
    return f.name.split("::{closure")[0]


def run(rep):
    F = mir.Facts(["sway_lsp"])
    rep.explanation = (
        "Decides three protocol rules whose violation yields a concrete bad interleaving, plus the ownership of the shared state: "
        "(R1) a Notify that is only signalled with notify_waiters wakes only futures that already exist, so a waiter must create "
        "the Notified future before checking the condition; (R2) is_compiling is set before the request it announces is sent, "
        "otherwise the worker's reset can come first and the flag sticks; (R3) the worker clears a stale retrigger request before "
        "each compilation, otherwise the newest edit's compilation is cancelled and never redone; (R4) the worker resets the flag "
        "and notifies after every job. The full interleaving space is not explored.")
    rep.trusted = ["rustc MIR (async bodies are analysed as their coroutine closures)", "tokio::sync::Notify and crossbeam-channel contracts", "SeqCst atomics"]
    fns = [f for f in F.fns.values() if f.crate == "sway_lsp" and not f.exp]
    # ---- R1 ------------------------------------------------------------------------------------------------------------
    n1 = 0
    for f in fns:
        notified = [(bi, t) for bi, t in f.calls() if (t.get("fp", "")).endswith("Notify::notified")]
        if not notified:
            continue
        loads = [(bi, t) for bi, t in f.calls() if LOAD.search(t.get("fp", "")) and atomic_name(f, t) == "is_compiling"]
        for nbi, nt in notified:
            n1 += 1
            # loads in the same loop: mutually reachable with the notified call
            same_loop = [(lbi, lt) for lbi, lt in loads if nbi in f.reachable(lbi) and lbi in f.reachable(nbi)]
            ok = bool(same_loop) and all(f.dominates(nbi, lbi) for lbi, _ in same_loop)
            if not same_loop and loads:
                ok = all(f.dominates(nbi, lbi) for lbi, _ in loads)
            rep.ob("R1-notified-created-before-condition-check", fam(f), ok, f.file, nt["ln"],
                   "the Notified future is created after `is_compiling` is read: if the worker finishes (store(false); notify_waiters()) between the "
                   "check and the creation, the wake-up is lost and the request waits until some later compilation ends — forever once the "
                   "client is idle")
    rep.floor("R1-notified-created-before-condition-check", 1, n1)
    # no notify_one anywhere (a stored permit would change the protocol) and notify_waiters only in the worker
    for f in fns:
        for bi, t in f.calls():
            nm = t.get("fp", "")
            if nm.endswith("Notify::notify_one") or nm.endswith("Notify::notify_last"):
                rep.ob("R4-notify-kind", fam(f), False, f.file, t["ln"], "finished_compilation must only be signalled with notify_waiters")
            if nm.endswith("Notify::notify_waiters"):
                rep.ob("R4-notify-kind", fam(f), fam(f).endswith("spawn_compilation_thread"), f.file, t["ln"],
                       "notify_waiters outside the compilation worker")
    # ---- R2 ------------------------------------------------------------------------------------------------------------
    # Async handler bodies are state machines in MIR (dominance does not survive an .await), so this rule is decided on the
    # syntax tree: in the statement list that contains `is_compiling.store(true, ..)`, the request is sent by a later statement of
    # the same list and nothing in between can leave the function or suspend it (`?`, return, .await, bail!-like macros).
    from lib import tab
    n2 = 0
    for rel in ("sway-lsp/src/handlers/notification.rs", "sway-lsp/src/handlers/request.rs", "sway-lsp/src/server.rs"):
        try:
            tr = tab.tree(rel)
        except Exception:
            continue
        for fn_ in tab.items(tr, "Fn"):
            for blk in [n for n in tab.walk(fn_["body"]) if n.get("k") == "Block"]:
                stmts = blk.get("stmts", [])
                for i_, st in enumerate(stmts):
                    if not _is_flag_store(st):
                        continue
                    n2 += 1
                    send_at = None
                    for k_, later in enumerate(stmts[i_ + 1:], i_ + 1):
                        if _sends(later):
                            send_at = k_
                            break
                    between = stmts[i_ + 1:send_at] if send_at is not None else []
                    leaks = [x.get("l", 0) for x in between if _may_leave(x)]
                    ok = send_at is not None and not leaks
                    rep.ob("R2-flag-set-before-request-sent", f"{fn_['name']}", ok, rel, st.get("l", 0),
                           ("is_compiling.store(true) is not followed by the send of the request it announces" if send_at is None else
                            f"between is_compiling.store(true) and the send there is a statement (line {leaks[0] if leaks else 0}) that can return or suspend") +
                           ": on that path the flag stays set with no compilation to reset it, and every wait_for_parsing hangs; "
                           "if the store came after the send instead, the worker's reset could come first")
    rep.floor("R2-flag-set-before-request-sent", 1, n2)
    # ---- R3 / R4 worker ----------------------------------------------------------------------------------------------------
    workers = [f for f in fns if fam(f).endswith("ServerState::spawn_compilation_thread") and f.kind == "closure" and any(RECV.search(t.get("fp", "")) for _, t in f.calls())]
    rep.ob("R3-worker-anchor", "spawn_compilation_thread", len(workers) == 1, "sway-lsp/src/server_state.rs", 0, f"compilation worker closure not found ({len(workers)})")
    if len(workers) == 1:
        w = workers[0]
        recv = [(bi, t) for bi, t in w.calls() if RECV.search(t.get("fp", ""))]
        parse = [(bi, t) for bi, t in w.calls() if (t.get("fp", "")).endswith("session::parse_project")]
        clears = [(bi, t) for bi, t in w.calls() if STORE.search(t.get("fp", "")) and atomic_name(w, t) == "retrigger_compilation" and const_bool(t) is False]
        ok = len(recv) == 1 and len(parse) == 1
        rep.ob("R3-worker-shape", fam(w), ok, w.file, w.lo, f"worker must have one recv and one parse_project call (found {len(recv)}/{len(parse)})")
        if ok:
            rbi, pbi = recv[0][0], parse[0][0]
            pre = [b for b, _ in clears if w.dominates(rbi, b) and w.dominates(b, pbi) and b != pbi]
            rep.ob("R3-stale-retrigger-cleared-before-compiling", fam(w), bool(pre), w.file, parse[0][1]["ln"],
                   "the worker does not clear retrigger_compilation between receiving a request and compiling it: a handler that saw is_compiling == true "
                   "for the previous job can set the flag after the worker's post-job reset; the flag then cancels the next (newest) compilation, and "
                   "nothing recompiles it")
            # the flag handed to parse_project is the same atomic
            arg_ok = any(panics.origin_var(w, a) in ("retrigger_compilation", "<captured>") or atomic_name(w, dict(a=[a])) == "retrigger_compilation"
                         for a in parse[0][1]["a"] if "l" in a) or _reaches(w, parse[0][1], "retrigger_compilation")
            rep.ob("R3-compile-observes-retrigger", fam(w), arg_ok, w.file, parse[0][1]["ln"], "parse_project must receive the retrigger_compilation flag")
            # R4: after the job: is_compiling=false on every path from parse_project to the next recv, followed by notify_waiters (guarded by rx.is_empty)
            resets = [b for b, t in w.calls() if STORE.search(t.get("fp", "")) and atomic_name(w, t) == "is_compiling" and const_bool(t) is False]
            notif = [b for b, t in w.calls() if (t.get("fp", "")).endswith("Notify::notify_waiters")]
            esc = rbi in w.reachable(pbi, avoid=set(resets)) if resets else True
            rep.ob("R4-flag-reset-after-every-job", fam(w), bool(resets) and not esc, w.file, w.lo,
                   "a path from the compilation back to the next recv() skips is_compiling.store(false)")
            rep.ob("R4-notify-after-reset", fam(w), bool(notif) and all(any(w.dominates(r, n) for r in resets) for n in notif), w.file, w.lo,
                   "notify_waiters must come after the flag reset (a woken waiter re-reads the flag)")
            sets = [b for b, t in w.calls() if STORE.search(t.get("fp", "")) and atomic_name(w, t) == "is_compiling" and const_bool(t) is True]
            rep.ob("R4-worker-sets-flag-before-compiling", fam(w), bool(sets) and all(w.dominates(b, pbi) for b in sets), w.file, w.lo,
                   "the worker must set is_compiling before parse_project")
    # ---- R5 who-may-touch -------------------------------------------------------------------------------------------------------
    n5 = 0
    for f in fns:
        for bi, t in f.calls():
            if STORE.search(t.get("fp", "")):
                nm = atomic_name(f, t)
                if nm in WRITERS:
                    n5 += 1
                    rep.ob("R5-state-written-by-reviewed-functions", f"{fam(f)}|{nm}", fam(f) in WRITERS[nm], f.file, t["ln"],
                           f"{nm} is written in {fam(f)}, which is not one of the reviewed writers {sorted(WRITERS[nm])}")
    rep.floor("R5-state-written-by-reviewed-functions", 6, n5)


def _is_flag_store(st):
    from lib import tab
    for n in tab.walk(st):
        if n.get("k") == "MethodCall" and n.get("method") == "store" and n.get("args"):
            r = n["recv"]
            a0 = n["args"][0]
            if r.get("k") == "Field" and r.get("member") == "is_compiling" and a0.get("k") == "Lit" and a0.get("v") is True:
                return st.get("k") in ("MethodCall", "Semi", "ExprStmt") or True
    return False


def _sends(st):
    from lib import tab
    for k_, nm, n in tab.calls(st):
        if (k_ == "call" and tab.last_seg(nm) == "send_new_compilation_request") or \
                (k_ == "method" and nm in ("send", "try_send") and "cb_tx" in str(n.get("recv"))):
            return True
    return False


def _may_leave(st):
    from lib import tab
    for n in tab.walk(st):
        if n.get("k") in ("Try", "Return", "Await", "Break", "Continue"):
            return True
        if n.get("k") == "Macro" and n.get("name") in ("bail", "panic", "unreachable", "todo", "unimplemented", "ensure"):
            return True
    return False


def _reaches(f, call_t, name):
    for a in call_t.get("a", []):
        if "l" not in a:
            continue
        ds = mir.defs_of(f).get(a["l"], [])
        for d in ds:
            if d[2] == "agg":
                for o in d[3]:
                    r = panics.root_call(f, o)
                    if r and r[0] == "call" and "clone" in (r[1].get("fp", "")) and panics.origin_var(f, r[1]["a"][0]) in (name, "<captured>"):
                        return True
    return False
