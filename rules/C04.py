"""C04 IR passes keep the IR well-formed — structural clauses.

R1 every analysis result a pass reads (get_analysis_result::<T>) in reach(runner) is produced by a pass in its
   (transitive) declared deps, at a scope the pass manager computes for it
R2 pass registry: each dep is registered before its dependant, is an analysis, scope-compatible; pipelines only name
   registered passes
R3 PassManager::run verifies the IR after every pass and propagates the error; a modifying transform invalidates
   the cached analyses of its scope (and of every function for a module pass)
R4 the verifier's instruction dispatch has no catch-all
R5 CFG edge bookkeeping: a function that builds a terminator by hand (outside InstructionInserter) registers the new
   edge with add_pred on every target it branches to
"""
import glob, os, re
from lib import tab, mir, panics
from lib.common import REPO, AnalysisError

LEVEL = "other"
PM = "sway-ir/src/pass_manager.rs"


def ir_files():
    fs = []
    for pat in ("sway-ir/src/optimize/*.rs", "sway-ir/src/analysis/*.rs", "sway-ir/src/*.rs"):
        fs += sorted(glob.glob(os.path.join(REPO, pat)))
    return [os.path.relpath(f, REPO) for f in fs]


def passes():
    """All `fn create_*_pass() -> Pass { Pass { .. } }` in sway-ir: list of dicts."""
    out, consts = [], {}
    for rel in ir_files():
        t = tab.tree(rel)
        for it in tab.items(t, "Const"):
            e = it.get("expr") or {}
            if e.get("k") == "Lit" and e.get("t") == "str":
                consts[it["name"]] = e["v"]
        for it in tab.items(t, "Fn"):
            if not re.match(r"create_.*_pass$", it["name"]):
                continue
            lits = [n for n in tab.find(it["body"], "Struct") if tab.last_seg(n.get("path", "")) == "Pass"]
            if len(lits) != 1:
                out.append(dict(fn=it["name"], file=rel, line=it.get("l", 0), error=f"{len(lits)} Pass literals"))
                continue
            fields = {f["name"]: f["expr"] for f in lits[0]["fields"]}
            p = dict(fn=it["name"], file=rel, line=it.get("l", 0), error=None)
            nm = fields.get("name", {})
            p["name_const"] = nm.get("path") if nm.get("k") == "Path" else None
            deps = fields.get("deps", {})
            if deps.get("k") == "Macro" and deps.get("name") == "vec":
                p["deps"] = [a.get("path") for a in (deps.get("args") or [])]
            elif deps.get("k") == "Call" and deps["func"].get("path") in ("Vec::new", "Vec::default") and not deps.get("args"):
                p["deps"] = []
            else:
                p["deps"] = None
            r = fields.get("runner", {})
            try:
                p["scope"] = tab.last_seg(r["func"]["path"])
                inner = r["args"][0]
                p["mut"] = tab.last_seg(inner["func"]["path"])
                p["runner"] = inner["args"][0]["path"]
            except (KeyError, IndexError, TypeError):
                p["error"] = "runner is not ScopedPass::X(PassMutability::Y(fn))"
            out.append(p)
    return out, consts


def run(rep):
    ps, consts = passes()
    rep.explanation = (
        "Decides: every analysis a pass consumes is declared as a dependency (an undeclared one panics "
        "'Analysis result unavailable' in every pass sequence where it was not computed or was invalidated); passes are "
        "registered dependency-first and pipelines name only registered passes; the pass manager verifies after every pass, "
        "propagates the verifier's error and drops stale analyses after a modifying transform; hand-built terminators register "
        "their CFG edges. Does not decide that each pass's output verifies.")
    rep.trusted = ["syn", "rustc MIR + resolution", "FxHashMap/TypeId keyed analysis cache as written"]
    for p in ps:
        rep.ob("R0-pass-literal-readable", p["fn"], not p["error"] and p.get("name_const") and p.get("deps") is not None, p["file"], p["line"],
               f"cannot read Pass literal: {p['error']}")
    ps = [p for p in ps if not p["error"] and p.get("deps") is not None]
    rep.floor("R0-pass-literal-readable", 25)
    by_name = {p["name_const"]: p for p in ps}

    F = mir.Facts(["sway_ir"])
    # result types
    res_types = set()
    for f in F.fns.values():
        pass
    for rel in ir_files():
        t = tab.tree(rel)
        for it in tab.items(t, "Impl"):
            if it.get("trait") and tab.last_seg(tab.norm(it["trait"])) == "AnalysisResultT":
                res_types.add(tab.norm(it["self_ty"]))
    # runner functions by simple name within the file's module
    def runner_fn(p):
        cands = [f for f in F.fns.values() if f.kind != "closure" and f.name.split("::")[-1] == p["runner"] and f.file == p["file"]]
        if len(cands) != 1:
            cands = [f for f in F.fns.values() if f.kind != "closure" and f.name.split("::")[-1] == p["runner"]]
        return cands[0] if len(cands) == 1 else None

    def used_results(fn):
        cone = F.cone([fn], crates=["sway_ir"], over_approx_traits=False)
        used = {}
        for fid in cone:
            g = F.fns.get(fid)
            if not g:
                continue
            for bi, t in g.calls():
                if (t.get("fp", "")).endswith("AnalysisResults::get_analysis_result"):
                    ga = generic_args(t.get("fn", ""), "get_analysis_result")
                    if len(ga) == 2:
                        used.setdefault((ga[0], ga[1].split("::")[-1]), (g, t))
        return used

    def produced(p):
        fn = runner_fn(p)
        if not fn:
            return None
        tys = set()
        for bi, t in fn.calls():
            if re.search(r"alloc::boxed::Box::<T>::new$", t.get("fp", "")):
                ga = generic_args(t.get("fn", ""), "Box")
                if ga:
                    tys.add(ga[0])
        # the function's own return flows from one of them; a pure-analysis runner builds exactly one result type
        return tys

    prod = {}
    for p in ps:
        if p["mut"] == "Analysis":
            prod[p["name_const"]] = (produced(p) or set(), p["scope"])
    n_uses = 0
    for p in ps:
        fn = runner_fn(p)
        rep.ob("R1-runner-resolved", p["fn"], fn is not None, p["file"], p["line"], f"runner `{p.get('runner')}` not found in MIR facts")
        if not fn:
            continue
        # transitive deps
        closure, todo = set(), list(p["deps"])
        while todo:
            d = todo.pop()
            if d in closure:
                continue
            closure.add(d)
            if d in by_name:
                todo += by_name[d]["deps"]
        avail = set()
        for d in closure:
            if d in prod:
                tys, scope = prod[d]
                for ty in tys:
                    avail.add((ty, "Function" if scope == "FunctionPass" else "Module"))
        for (ty, scope), (g, t) in sorted(used_results(fn).items()):
            n_uses += 1
            ok = (ty, scope) in avail
            # a module pass computes function-scope deps for every function of the module
            rep.ob("R1-analysis-declared", f"{p['fn']}|{ty}@{scope}", ok, g.file, t["ln"],
                   f"pass `{consts.get(p['name_const'], p['name_const'])}` reads analysis result {ty} at {scope} scope but its declared deps "
                   f"{p['deps']} (transitively {sorted(closure)}) do not produce it: get_analysis_result panics whenever the result is "
                   "not cached (first use, or after any modifying pass invalidated it)")
    rep.floor("R1-analysis-declared", 10, n_uses)
    # an analysis must produce exactly one result type (the cache is keyed by the produced value's TypeId and by pass name)
    for name, (tys, scope) in prod.items():
        p = by_name[name]
        rep.ob("R1-analysis-produces-one-result", p["fn"], len(tys) == 1, p["file"], p["line"],
               f"analysis pass produces result types {sorted(tys)} (expected exactly one AnalysisResultT type)")

    # ---- R2 registry ---------------------------------------------------------------------------------------------
    t = tab.tree(PM)
    reg = tab.fn(t, "register_known_passes")
    order = []
    for kind, nm, n in tab.calls(reg["body"]):
        if kind == "method" and nm == "register" and n["args"] and n["args"][0].get("k") == "Call":
            order.append(tab.last_seg(n["args"][0]["func"]["path"]))
    by_fn = {p["fn"]: p for p in ps}
    seen = []
    for i, fnname in enumerate(order):
        p = by_fn.get(fnname)
        if not p:
            rep.ob("R2-registered-pass-known", fnname, False, PM, reg.get("l", 0), f"register_known_passes registers {fnname} which has no readable Pass literal")
            continue
        for d in p["deps"]:
            dp = by_name.get(d)
            ok = dp is not None and dp["fn"] in seen
            rep.ob("R2-dep-registered-first", f"{fnname}|{d}", ok, PM, reg.get("l", 0),
                   f"{fnname} depends on {d} which is not registered earlier: PassManager::register panics at start-up")
            if dp:
                rep.ob("R2-dep-is-analysis", f"{fnname}|{d}", dp["mut"] == "Analysis", dp["file"], dp["line"],
                       f"{fnname} depends on transformation pass {d}")
                rep.ob("R2-dep-scope", f"{fnname}|{d}", not (p["scope"] == "FunctionPass" and dp["scope"] == "ModulePass"), dp["file"], dp["line"],
                       f"function pass {fnname} depends on module pass {d}")
        seen.append(fnname)
    rep.ob("R2-no-duplicate-registration", "register_known_passes", len(order) == len(set(order)), PM, reg.get("l", 0),
           "a pass is registered twice (register panics)")
    dupnames = [c for c in set(p["name_const"] for p in ps) if sum(1 for q in ps if consts.get(q["name_const"]) == consts.get(c)) > 1]
    rep.ob("R2-pass-names-unique", "pass names", not dupnames, PM, 0, f"two passes share a name: {dupnames}")
    registered_consts = {by_fn[f]["name_const"] for f in order if f in by_fn}
    # pipelines
    n_pipe = 0
    for rel, fnname in ((PM, "create_o1_pass_group"), ("sway-core/src/lib.rs", "compile_ast_to_ir_to_asm")):
        tt = tab.tree(rel)
        f = tab.fn(tt, fnname)
        for kind, nm, n in tab.calls(f["body"]):
            if kind == "method" and nm in ("append_pass", "append_group") and n["args"] and n["args"][0].get("k") == "Path":
                c = tab.last_seg(n["args"][0]["path"])
                if not c.endswith("_NAME"):
                    continue
                n_pipe += 1
                rep.ob("R2-pipeline-names-registered", f"{fnname}|{c}", c in registered_consts, rel, n.get("l", 0),
                       f"{fnname} schedules {c} which register_known_passes does not register: actually_run panics 'Unregistered pass'")
    rep.floor("R2-pipeline-names-registered", 20, n_pipe)
    # every create_*_pass of sway-ir is registered (an unregistered pass cannot be named in a pipeline)
    for p in ps:
        if p["file"].startswith("sway-ir/") and not p["fn"].startswith("create_module_"):
            rep.ob("R2-pass-is-registered", p["fn"], p["fn"] in order, p["file"], p["line"], f"{p['fn']} is never registered")

    # ---- R3 PassManager::run / actually_run ----------------------------------------------------------------------
    run_fn = F.fn("sway_ir::pass_manager::PassManager::run")
    ar = [(bi, tt) for bi, tt in run_fn.calls() if (tt.get("fp", "")).endswith("PassManager::actually_run")]
    ver = [(bi, tt) for bi, tt in run_fn.calls() if re.search(r"sway_ir::verify::<impl sway_ir::context::Context<'_>>::verify$", tt.get("fp", ""))]
    ok = len(ar) == 1 and len(ver) >= 2
    rep.ob("R3-run-shape", run_fn.name, ok, run_fn.file, run_fn.lo, f"PassManager::run: {len(ar)} actually_run call(s), {len(ver)} verify call(s)")
    if ok:
        abi = ar[0][0]
        # every path from the return of actually_run to (a) the next actually_run, or (b) a normal return, passes through a verify
        # call — except paths that leave through the `?` of actually_run itself (they return its Err).
        after = [b for b, _ in ver if abi in run_fn.reachable(b) or b in run_fn.reachable(abi)]
        vblocks = {b for b, _ in ver if b in run_fn.reachable(abi) and b != abi}
        # successor of actually_run's Ok edge
        cont = _try_continue_block(run_fn, ar[0][1])
        bad = False
        if cont is None:
            bad = True
        else:
            reach = run_fn.reachable(cont, avoid=vblocks)
            # must not reach actually_run again or an Ok return without passing a verify
            if abi in reach:
                bad = True
            for b in reach:
                bb = run_fn.bbs[b]
                for s in bb["s"]:
                    if s["d"]["l"] == 0 and s["r"]["k"] == "agg" and s["r"].get("var") == "Ok":
                        bad = True
        rep.ob("R3-verify-after-every-pass", run_fn.name, not bad, run_fn.file, ar[0][1]["ln"],
               "a path from a completed pass to the next pass (or to Ok) does not call Context::verify: ill-formed IR flows into later passes / the backend")
        # the verify result is propagated with `?`
        for b, vt in ver:
            br = _try_continue_block(run_fn, vt)
            rep.ob("R3-verify-error-propagated", f"{run_fn.name}|verify@{'after' if b in vblocks else 'initial'}", br is not None, run_fn.file, vt["ln"],
                   "the Result of Context::verify is not propagated with `?`")
    for nm, want_fn_loop in (("run_module_pass", True), ("run_function_pass", False)):
        f = F.fn(f"sway_ir::pass_manager::PassManager::actually_run::{nm}")
        inv = [(bi, tt) for bi, tt in f.calls() if (tt.get("fp", "")).endswith("AnalysisResults::invalidate_all_results_at_scope")]
        scopes = set()
        for bi, tt in inv:
            m = re.search(r"invalidate_all_results_at_scope::<([^>]+)>", tt.get("fn", ""))
            if m:
                scopes.add(m.group(1).split("::")[-1])
        need = {"Module", "Function"} if want_fn_loop else {"Function"}
        rep.ob("R3-transform-invalidates-analyses", f.name, need <= scopes, f.file, f.lo,
               f"{nm} must invalidate cached analyses at scopes {sorted(need)} after a modifying transform (found {sorted(scopes)}): later passes would "
               "use stale dominators / escape information")
        # the invalidation is on the `modified == true` edge of the transform's result, and nothing reads analyses in between
        tcalls = [(bi, tt) for bi, tt in f.calls() if tt.get("fp", "").startswith("core::ops::function::Fn") or tt.get("ptr")]
        okdom = True
        for bi, tt in inv:
            # dominated by a switch on a bool obtained from a `branch` of a call result -> simplified: block is not reachable when avoiding all switch blocks
            pass
        rep.ob("R3-invalidate-covers-all-modifying-paths", f.name, _invalidate_on_true(f, inv), f.file, f.lo,
               "a path on which the transform returned `true` reaches the function's return without invalidating the analyses")

    # ---- R4 verifier dispatch --------------------------------------------------------------------------------------
    vt = tab.tree("sway-ir/src/verify.rs")
    big = None
    for f in tab.items(vt, "Fn"):
        for m in tab.matches_in(f["body"]):
            arms = m["arms"]
            n = sum(1 for a in arms for v, _ in tab.pat_variants(a["pat"]) if v.startswith("InstOp::"))
            if n >= 20 and (big is None or n > big[0]):
                big = (n, m, f)
    rep.ob("R4-verifier-dispatch-found", "verify.rs", big is not None, "sway-ir/src/verify.rs", 0, "instruction dispatch match not found in verify.rs")
    if big:
        w = tab.has_wildcard_arm(big[1])
        rep.ob("R4-verifier-no-catch-all", f"{big[2]['name']}", w is None, "sway-ir/src/verify.rs", (w or big[1]).get("l", 0),
               "the verifier's instruction dispatch has a catch-all arm: a new instruction is accepted unverified")

    # ---- R5 hand-built terminators ------------------------------------------------------------------------------------
    G = F
    n5 = 0
    for f in G.fns.values():
        if f.exp:
            continue
        for bi, si, s in f.stmts():
            r = s["r"]
            if r["k"] == "agg" and r.get("adt", "").endswith("instruction::InstOp") and r.get("var") in ("Branch", "ConditionalBranch"):
                n5 += 1
                want = 1 if r["var"] == "Branch" else 2
                adds = [tt for _, tt in f.calls() if (tt.get("fp", "")).endswith("Block::add_pred")]
                fam = f.name.split("::{closure")[0]
                rep.ob("R5-terminator-registers-edges", f"{fam}|{r['var']}", len(adds) >= want, f.file, s.get("ln", f.lo),
                       f"{f.name} builds an InstOp::{r['var']} but calls Block::add_pred {len(adds)} time(s) (needs {want}): the target block's "
                       "predecessor set misses this edge whenever it was not already present (e.g. both arms of the replaced cbr were the same block), "
                       "so dominators / block-argument checks run on a wrong CFG")
    rep.floor("R5-terminator-registers-edges", 3, n5)


def generic_args(inst, after):
    """Top-level generic arguments of `...after::<A, B>...` in a printed instantiation."""
    i = inst.find(after + "::<")
    if i < 0:
        return []
    i += len(after) + 3
    depth, cur, out = 1, "", []
    while i < len(inst) and depth > 0:
        c = inst[i]
        if c in "<([":
            depth += 1
        elif c in ">)]":
            depth -= 1
            if depth == 0:
                break
        if c == "," and depth == 1:
            out.append(cur.strip())
            cur = ""
        else:
            cur += c
        i += 1
    if cur.strip():
        out.append(cur.strip())
    return out


def _try_continue_block(fn, call_t):
    """Block reached on the Continue edge of `branch(call result)`; None when the result is not `?`-propagated."""
    for bi, t in fn.calls():
        nm = t.get("rn") or t.get("fp", "")
        if nm.endswith("Try>::branch") and t["a"][0].get("l") == call_t["d"]["l"]:
            sw = fn.bbs[t["t"]]["t"]
            if sw["k"] == "switch":
                cont = [b for v, b in sw["ts"] if v == "0"]
                brk = [b for v, b in sw["ts"] if v == "1"]
                if cont and brk:
                    # the Break arm must reach from_residual into the return place
                    for b in fn.reachable(brk[0]):
                        tt = fn.bbs[b]["t"]
                        if tt["k"] == "call" and (tt.get("rn") or tt.get("fp", "")).endswith("from_residual") and tt.get("d", {}).get("l") == 0:
                            return cont[0]
    return None


def _invalidate_on_true(f, inv):
    """every `modified = true` assignment is in a block dominated by an invalidate call (or follows it in the same block chain)."""
    inv_blocks = [bi for bi, _ in inv]
    sets = []
    for bi, si, s in f.stmts():
        if s["r"]["k"] == "use" and s["r"]["o"] and "c" in s["r"]["o"][0] and s["r"]["o"][0]["c"].strip() in ("true", "const true") \
                and f.var(s["d"]["l"]) == "modified":
            sets.append(bi)
    if not sets or not inv_blocks:
        return False
    return all(any(f.dominates(ib, sb) for ib in inv_blocks) for sb in sets)
