"""C12 Initial storage slots match what storage reads return — key-derivation and padding clauses.

R1 one key derivation: the slot emitter (serialize_to_storage_slots) and code generation (compile_get_storage_key) both
   take a field's key from storage::get_storage_key; only get_storage_key / get_storage_field_path_and_field_id hash
R2 the implicit key is sha256(STORAGE_DOMAIN ++ path) with STORAGE_DOMAIN = [0u8], domain fed first; the path string is
   built from the four separator constants; an explicit `in` key is used verbatim
R3 domain separation: StorageMap hashes (STORAGE_MAP_DOMAIN, key, field_id) with a domain constant other than 0
R4 consecutive slots: slot i of a multi-slot value is key + i in both the emitter and the reader side helper
R5 padding arithmetic: no `N - len % N` pad count (it is N, not 0, for an aligned length) in the slot serializer
"""
import os, re
from lib import mir, tab, panics
from lib.common import REPO, VERIF, AnalysisError

LEVEL = "other"
ST = "sway-core/src/ir_generation/storage.rs"
MOD = "sway_core::ir_generation::storage"


def pad_antipatterns(tree):
    """`N - x % N` that is not itself reduced `% N` (syntax tree)."""
    out = []
    wrapped = set()
    for n in tab.walk(tree):
        if n.get("k") == "Binary" and n.get("op") == "%":
            l = n["left"]
            while l.get("k") == "Paren":
                l = l["expr"]
            wrapped.add(id(l))
    for n in tab.walk(tree):
        if n.get("k") == "Binary" and n.get("op") == "-":
            l, r = n["left"], n["right"]
            while r.get("k") == "Paren":
                r = r["expr"]
            if l.get("k") == "Lit" and r.get("k") == "Binary" and r.get("op") == "%" and r["right"].get("k") == "Lit" \
                    and str(l.get("v")) == str(r["right"].get("v")) and id(n) not in wrapped:
                out.append(n.get("l", 0))
    for n in tab.walk(tree):
        if n.get("k") == "Macro" and "tokens" in n:
            out += _pad_in_tokens(n["tokens"], False)
    return out


def _pad_in_tokens(toks, reduced):
    """token-level version for macro bodies such as `vec![0; 8 - s.len() % 8]`."""
    out = []
    # split at `,` and `;`
    segs, cur = [], []
    for t in toks:
        if t.get("p") in (",", ";"):
            segs.append(cur)
            cur = []
        else:
            cur.append(t)
    segs.append(cur)
    for seg in segs:
        for i, t in enumerate(seg):
            if "g" in t:
                nxt = seg[i + 1] if i + 1 < len(seg) else {}
                out += _pad_in_tokens(t.get("t", []), nxt.get("p") == "%")
        if len(seg) >= 5 and "lit" in seg[0] and seg[1].get("p") == "-" and "lit" in seg[-1] and seg[-2].get("p") == "%" \
                and seg[0]["lit"] == seg[-1]["lit"] and not reduced and sum(1 for t in seg if t.get("p") in ("-", "+", "*", "/", "%")) == 2:
            out.append(seg[0].get("l", 0))
    return out


def run(rep):
    rep.explanation = (
        "Decides: the compiler-emitted slots and the generated storage reads derive a field's key by the same function from the same "
        "inputs (documented hash of domain byte 0 and the namespace path, or the explicit key verbatim); library storage types hash "
        "under a different domain; multi-slot values use consecutive keys; the serializer's padding counts are zero for aligned "
        "lengths. The byte layout of values inside slots versus what std::storage reads reassemble is not decided.")
    rep.trusted = ["rustc MIR", "syn", "fuel_crypto::Hasher is SHA-256 over the concatenated inputs"]
    F = mir.Facts(["sway_core", "sway_utils"])
    hs = F.fn(MOD + "::hash_storage_key_string")
    gk = F.fn(MOD + "::get_storage_key")
    gp = F.fn(MOD + "::get_storage_field_path_and_field_id")
    ser = F.fn(MOD + "::serialize_to_storage_slots")
    # ---- R1 ----------------------------------------------------------------------------------------------------------
    callers = {}
    for f in F.fns.values():
        for bi, t in f.calls():
            cid = mir.callee_id(t)
            if cid in (hs.id, gk.id):
                callers.setdefault(cid, set()).add(f.name.split("::{closure")[0])
    rep.ob("R1-only-key-functions-hash", hs.name, callers.get(hs.id, set()) == {gk.name, gp.name}, hs.file, hs.lo,
           f"hash_storage_key_string is called from {sorted(callers.get(hs.id, set()))}; expected exactly get_storage_key and get_storage_field_path_and_field_id")
    gk_callers = callers.get(gk.id, set())
    need = {ser.name, "sway_core::ir_generation::function::FnCompiler::<'a>::compile_get_storage_key"}
    need2 = {n for n in gk_callers if n.endswith("compile_get_storage_key")} | {ser.name}
    rep.ob("R1-emitter-and-codegen-share-get_storage_key", gk.name, ser.name in gk_callers and any(n.endswith("compile_get_storage_key") for n in gk_callers),
           gk.file, gk.lo, f"get_storage_key must be used by both serialize_to_storage_slots and compile_get_storage_key (callers: {sorted(gk_callers)})")
    # every StorageSlot built by the emitter is keyed by get_storage_key(path, key) or add_to_b256(that, i)
    n_slots = 0
    cone = F.cone([ser], crates=["sway_core"], over_approx_traits=False)
    for fid in cone:
        g = F.fns.get(fid)
        if not g or not g.name.startswith(ser.name):
            continue
        for bi, t in g.calls():
            if (t.get("fp", "")).endswith("StorageSlot::new"):
                n_slots += 1
                r = panics.root_call(g, t["a"][0])
                ok = False
                why = str(r and r[0])
                if r and r[0] == "call":
                    cid = mir.callee_id(r[1])
                    if cid == gk.id:
                        ok = _args_are_params(g, r[1], ser)
                    why = r[1].get("fp", "")
                elif r and r[0] == "var":
                    # closure parameter fed by `.map(|i| add_to_b256(storage_key, i)).zip(..)`: accept when the enclosing function
                    # derives `storage_key` from get_storage_key and offsets it with add_to_b256 only
                    ok = _zip_keys_ok(F, ser, gk)
                    why = "closure parameter"
                rep.ob("R1-slot-key-from-get_storage_key", f"{g.name}|slot#{n_slots}", ok, g.file, t["ln"],
                       f"a StorageSlot is keyed by a value that does not come from get_storage_key(storage_field_path, key) (found {why}): the emitted "
                       "slot and the key the generated code reads would differ")
    rep.floor("R1-slot-key-from-get_storage_key", 7, n_slots)
    # codegen: the key baked into the IR is get_storage_key(&storage_field_path, key) of the function's own parameters
    cg = [f for f in F.fns.values() if f.name.endswith("FnCompiler::<'a>::compile_get_storage_key")]
    rep.ob("R1-codegen-anchor", "compile_get_storage_key", len(cg) == 1, ST, 0, "FnCompiler::compile_get_storage_key not found")
    if len(cg) == 1:
        c = cg[0]
        calls = [t for _, t in c.calls() if mir.callee_id(t) == gk.id]
        ok = len(calls) == 1 and _args_are_named(c, calls[0], ("storage_field_path", "key"))
        rep.ob("R1-codegen-key-from-declaration", c.name, ok, c.file, c.lo,
               "compile_get_storage_key must call get_storage_key(&storage_field_path, key) with its own parameters")

    # ---- R2 ----------------------------------------------------------------------------------------------------------
    inputs = [(bi, t) for bi, t in hs.calls() if re.search(r"Hasher::input$", t.get("fp", ""))]
    ok = len(inputs) == 2
    detail = f"{len(inputs)} Hasher::input calls"
    if ok:
        (b1, t1), (b2, t2) = inputs
        first_is_domain = "STORAGE_DOMAIN" in str(t1["a"][1].get("c", "")) or _root_const(hs, t1["a"][1], "STORAGE_DOMAIN")
        second_is_arg = panics.root_local(hs, t2["a"][1]) == ("l", 1)
        ok = first_is_domain and second_is_arg and hs.dominates(b1, b2) and b1 != b2
        detail = f"first input is STORAGE_DOMAIN: {first_is_domain}; second input is the path argument: {second_is_arg}"
    rep.ob("R2-hash-is-domain-then-path", hs.name, ok, hs.file, hs.lo,
           f"hash_storage_key_string must feed STORAGE_DOMAIN and then the key string to the hasher ({detail})")
    ut = tab.tree("sway-utils/src/constants.rs")
    consts = {it["name"]: it for it in tab.items(ut, "Const")}
    dom = consts.get("STORAGE_DOMAIN", {}).get("expr", {})
    dom_ok = dom.get("k") == "Array" and len(dom.get("elems", [])) == 1 and str(dom["elems"][0].get("v")) == "0"
    rep.ob("R2-storage-domain-is-zero", "STORAGE_DOMAIN", dom_ok, "sway-utils/src/constants.rs", consts.get("STORAGE_DOMAIN", {}).get("l", 0),
           "STORAGE_DOMAIN must be the single byte 0 (the documented domain of compiler-generated keys)")
    st = tab.tree(ST)
    ks = tab.fn(st, "get_storage_key_string")
    used = {tab.last_seg(n["path"]) for n in tab.walk(ks["body"]) if n.get("k") == "Path" and "constants::" in n.get("path", "")}
    rep.ob("R2-path-string-separators", "get_storage_key_string", used == {"STORAGE_TOP_LEVEL_NAMESPACE", "STORAGE_FIELD_SEPARATOR", "STORAGE_NAMESPACE_SEPARATOR"},
           ST, ks.get("l", 0), f"get_storage_key_string must build `storage[::ns]*.field` from the separator constants (uses {sorted(used)})")
    want = {"STORAGE_TOP_LEVEL_NAMESPACE": "storage", "STORAGE_FIELD_SEPARATOR": ".", "STORAGE_NAMESPACE_SEPARATOR": "::", "STRUCT_FIELD_SEPARATOR": "."}
    for k, v in want.items():
        e = consts.get(k, {}).get("expr", {})
        rep.ob("R2-separator-constant", k, e.get("v") == v, "sway-utils/src/constants.rs", consts.get(k, {}).get("l", 0), f"{k} must be {v!r} (found {e.get('v')!r})")
    # explicit key verbatim: the `Some(key)` arm of get_storage_key is key.to_be_bytes().into()
    gkt = tab.fn(st, "get_storage_key")
    ms = tab.matches_in(gkt["body"])
    verb = False
    if ms:
        arms = tab.arms_by_variant(ms[0])
        if "Some" in arms:
            b = arms["Some"][0][0]["body"]
            calls = [nm for k_, nm, n in tab.calls(b) if k_ == "method"]
            verb = calls and set(calls) <= {"to_be_bytes", "into"} and "to_be_bytes" in calls and not [1 for k_, nm, n in tab.calls(b) if k_ == "call"]
    rep.ob("R2-explicit-key-verbatim", "get_storage_key", bool(verb), ST, gkt.get("l", 0),
           "an explicit `in` key must be used as is (big-endian bytes of the u256), not hashed or offset")

    # ---- R3 StorageMap domain ------------------------------------------------------------------------------------------
    sm = open(os.path.join(REPO, "sway-lib-std/src/storage/storage_map.sw")).read()
    m = re.search(r"const\s+STORAGE_MAP_DOMAIN\s*:\s*u8\s*=\s*(\d+)\s*;", sm)
    rep.ob("R3-map-domain-differs", "STORAGE_MAP_DOMAIN", bool(m) and int(m.group(1)) != 0, "sway-lib-std/src/storage/storage_map.sw", 0,
           "StorageMap must hash under a domain byte other than the compiler's 0")
    body = re.search(r"fn\s+get_slot_key\s*\([^)]*\)\s*->\s*b256\s*\{(.*?)\}", sm, re.S)
    tup = re.search(r"sha256\s*\(\s*\(\s*([A-Za-z_]\w*)\s*,", body.group(1)) if body else None
    rep.ob("R3-map-domain-hashed-first", "StorageMap::get_slot_key", bool(tup) and tup.group(1) == "STORAGE_MAP_DOMAIN", "sway-lib-std/src/storage/storage_map.sw", 0,
           "StorageMap::get_slot_key must hash a tuple whose first element is STORAGE_MAP_DOMAIN")

    # ---- R4 consecutive slots ----------------------------------------------------------------------------------------------
    a2b = [t for fid in cone for g in [F.fns.get(fid)] if g for _, t in g.calls() if (t.get("fp", "")).endswith("storage::add_to_b256")]
    rep.ob("R4-multi-slot-keys-consecutive", ser.name, len(a2b) >= 1, ser.file, ser.lo, "multi-slot values must be keyed key + i via add_to_b256")
    add = tab.fn(st, "add_to_b256")
    ops = {n["op"] for n in tab.walk(add["body"]) if n.get("k") == "Binary"}
    rep.ob("R4-add_to_b256-adds", "add_to_b256", ops == {"+"}, ST, add.get("l", 0), f"add_to_b256 must compute x + y (operators found: {sorted(ops)})")

    # ---- R5 padding ------------------------------------------------------------------------------------------------------
    bad = pad_antipatterns(st)
    rep.ob("R5-pad-count-zero-when-aligned", ST, not bad, ST, bad[0] if bad else 0,
           "a padding count of the form `N - len % N` is N (a whole extra word / slot) when len is already a multiple of N: every following "
           "word of the enclosing aggregate is shifted in the emitted slots")
    fx = tab.tree_abs(os.path.join(VERIF, "fixtures/C12/pad_antipattern.rs"))
    if len(pad_antipatterns(fx)) != 1:
        raise AnalysisError("R5 self-test: the padding anti-pattern matcher must flag exactly pad_wrong in fixtures/C12/pad_antipattern.rs")
    rep.note("R5 positive fixture flagged: ok")



    rule_field_lookup(rep)


def _args_are_params(g, call_t, outer):
    """get_storage_key(storage_field_path, key): both derive from the enclosing function's parameters of those names."""
    return _args_are_named(g, call_t, ("storage_field_path", "key"))


def _args_are_named(g, call_t, names):
    got = []
    for a in call_t["a"][:2]:
        v = panics.origin_var(g, a)
        if v is None and "l" in a:
            r = panics.root_call(g, a)
            v = r[1] if r and r[0] == "var" else None
        got.append(v)
    return tuple(got) == tuple(names) or all(x in (n, "<captured>") for x, n in zip(got, names))


def _zip_keys_ok(F, ser, gk):
    """In serialize_to_storage_slots the multi-slot branch maps i -> add_to_b256(storage_key, i) with storage_key = get_storage_key(..)."""
    for f in F.fns.values():
        if f.name.startswith(ser.name + "::{closure"):
            for bi, t in f.calls():
                if (t.get("fp", "")).endswith("storage::add_to_b256"):
                    nm = panics.origin_var(f, t["a"][0])
                    if nm in ("storage_key", "<captured>"):
                        # the captured variable is assigned from get_storage_key in the parent
                        for bi2, t2 in ser.calls():
                            if mir.callee_id(t2) == gk.id and ser.var(t2["d"]["l"]) == "storage_key":
                                return True
    return False


def _root_const(f, o, name):
    r = panics.root_local(f, o)
    return bool(r and r[0] == "c" and name in r[1])


def rule_field_lookup(rep):
    """R6: a storage access `storage::a::b.f` is compiled against the declared field it names: the lookup over the declared fields
    must match the field name AND the whole namespace path (equal length, equal elements, or `==` on the paths). A prefix / suffix /
    unchecked-zip comparison resolves `storage.f` to `storage::ns.f` when that is declared first, and the access then reads the
    other field's key (its explicit `in` key included)."""
    rel = "sway-core/src/language/ty/declaration/storage.rs"
    t = tab.tree(rel)
    f = tab.fn(t, "apply_storage_access")
    finds = [n for n in tab.walk(f["body"]) if n.get("k") == "MethodCall" and n["method"] in ("find", "position", "filter", "find_map", "any") and
             "storage_fields" in tab.show(n["recv"]) and n["args"] and n["args"][0].get("k") == "Closure"]
    if len(finds) != 1:
        raise AnalysisError(f"apply_storage_access: expected one lookup over storage_fields, found {len(finds)}")
    cl = finds[0]["args"][0]
    param = tab.show(cl["inputs"][0])
    body = tab.show(cl["body"])
    name_eq = re.search(r"&?%s\.name==\*?&?first_field|first_field==&?%s\.name" % (re.escape(param), re.escape(param)), body) is not None
    ns = r"%s\.namespace_names" % re.escape(param)
    whole_eq = re.search(r"%s(\.as_slice\(\))?==\*?&?namespace_names|namespace_names(\.as_slice\(\))?==&?%s|%s\.eq\(&?namespace_names\)|%s\.iter\(\)\.eq\(namespace_names" % (ns, ns, ns, ns), body) is not None
    len_eq = re.search(r"%s\.len\(\)==namespace_names\.len\(\)|namespace_names\.len\(\)==%s\.len\(\)" % (ns, ns), body) is not None
    zip_all = re.search(r"%s\.iter\(\)\.zip\(namespace_names\.iter\(\)\)\.all\(\|\((\w+),(\w+)\)\|\(?\1==\2\)?\)" % ns, body) is not None
    partial = re.findall(r"\.(starts_with|ends_with|contains|strip_prefix|strip_suffix)\(", body)
    ok = name_eq and (whole_eq or (len_eq and zip_all)) and not partial
    rep.ob("R6-accessed-field-found-by-full-path", "apply_storage_access", ok, rel, finds[0]["l"],
           "the declared field for a storage access must be found by its name and its complete namespace path"
           + (f" (found a partial comparison: {sorted(set(partial))})" if partial else "" if name_eq else " (the field name is not compared)")
           + ": otherwise `storage.f` can resolve to a field `f` of a namespace declared earlier and is read from that field's slot")

