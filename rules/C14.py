"""C14 Match exhaustiveness and reachability are exact -- the run-time clause only.

The statement has three clauses: (1) non-exhaustive matches are rejected exactly when a value is uncovered, with a real witness;
(2) unreachable-arm warnings are exact; (3) at run time the first matching arm executes. (1) and (2) are properties of the
usefulness algorithm over pattern matrices and are NOT decided here. (3) has a table-shaped necessary condition: how a pattern
is turned into a boolean condition and how the arms are chained. That is what these rules decide:

M1 arms are chained bottom-up (reverse iteration) with the accumulated chain in the *else* position and the arm's own
   condition / result in the condition / then positions: an earlier arm is tested before a later one
M2 the chain ends in the last arm's result when that arm is a catch-all, and in a revert otherwise
M3 pattern kind -> requirement tree: or-patterns give an OR node over every alternative matched against the same value,
   struct / tuple / enum patterns an AND node, a literal / constant a `value == literal` requirement, a variable a binding, `_`
   nothing; the dispatch has no catch-all arm
M4 sub-patterns are matched against their own component: the struct field of the same name, the tuple element at the
   enumeration index, the enum payload obtained by downcasting to the same variant whose tag is required first
M5 requirement tree -> condition: a requirement leaf is `lhs == rhs`, AND nodes are joined with the lazy AND, OR nodes with the
   lazy OR, in order
"""
import re
from lib import tab
from lib.common import AnalysisError

LEVEL = "other"
D = "sway-core/src/semantic_analysis/ast_node/expression/match_expression/typed/"
TME, MAT, TMB, INST = D + "typed_match_expression.rs", D + "matcher.rs", D + "typed_match_branch.rs", D + "instantiate.rs"


def only(xs, what):
    if len(xs) != 1:
        raise AnalysisError(f"C14: expected exactly one {what}, found {len(xs)}")
    return xs[0]


def fn_named(t, name):
    return only([x for x in tab.walk(t) if x.get("k") == "Fn" and x.get("name") == name], f"fn {name}")


def params(f):
    return [tab.show(p["pat"]).replace("mut ", "") for p in f["sig"]["inputs"] if "pat" in p]


def run(rep):
    rep.explanation = (
        "Decides only the run-time clause of C14 (the first matching arm executes) through its table-shaped necessary conditions: the arms are "
        "chained bottom-up with the earlier arm's condition outermost, the chain ends in the catch-all arm's result or a revert, every pattern kind "
        "is translated to the requirement node of its meaning (OR over alternatives, AND over components, `==` for literals, bindings for "
        "variables), each sub-pattern is matched against its own component, and AND / OR nodes become lazy && / ||. Exactness of the exhaustiveness "
        "and reachability analysis (the usefulness algorithm) is not decided.")
    rep.trusted = ["syn", "instantiate_if_expression(cond, then, else) builds `if cond { then } else { else }`", "std::ops::Eq::eq agrees with pattern equality for literals"]
    # ---- M1 / M2 -----------------------------------------------------------------------------------------------------------
    t = tab.tree(TME)
    f = fn_named(t, "desugar_to_typed_if_expression")
    loops = [n for n in tab.walk(f["body"]) if n.get("k") == "For"]
    lp = only(loops, "loop over the branches in desugar_to_typed_if_expression")
    it = tab.show(lp["iter"])
    rep.ob("M1-arms-chained-bottom-up", "iteration", re.fullmatch(r"self\.branches\.iter\(\)\.rev\(\)", it) is not None, TME, lp["l"],
           f"the arms must be folded from the last to the first (`self.branches.iter().rev()`) so that the first arm ends up outermost; found `{it}`")
    binds = {fl["name"]: (tab.show(fl["pat"]) if fl.get("pat") else fl["name"]) for fl in lp["pat"].get("fields", [])} if lp["pat"].get("k") == "PStruct" else {}
    call = only([n for n in tab.walk(lp["body"]) if n.get("k") == "MethodCall" and n["method"] == "convert_to_typed_if_expression_inner_branch"], "call of convert_to_typed_if_expression_inner_branch")
    inner = fn_named(t, "convert_to_typed_if_expression_inner_branch")
    ip = params(inner)
    args = [tab.show(a).lstrip("&").replace("mut ", "") for a in call["args"]]
    amap = dict(zip(ip, args))
    rep.ob("M1-arms-chained-bottom-up", "branch fields passed", amap.get("condition") == binds.get("condition", "condition") and amap.get("result") == binds.get("result", "result") and
           amap.get("typed_if_exp") == "typed_if_exp", TME, call["l"],
           f"the arm's own condition and result and the accumulated chain must be passed in their roles; found {amap}")
    ifs = [n for n in tab.walk(inner["body"]) if n.get("k") == "Call" and tab.show(n["func"]).endswith("instantiate_if_expression")]
    c = only(ifs, "instantiate_if_expression call")
    a = [tab.show(x) for x in c["args"]]
    ok = len(a) >= 5 and a[2] == "condition" and re.fullmatch(r"result(\.clone\(\))?", a[3]) is not None and a[4].startswith("Some(typed_if_exp")
    cond_def = [tab.show(i_) for l_, n_, _, i_ in tab.lets(inner["body"]) if n_ == ["condition"] and i_ is not None]
    ok = ok and bool(cond_def) and re.fullmatch(r"condition\.clone\(\)\.unwrap_or\(instantiate\.boolean_literal\(True\)\)", cond_def[-1]) is not None
    rep.ob("M1-earlier-arm-is-the-outer-if", "if construction", ok, TME, c["l"],
           f"each step must build `if <arm condition> {{ <arm result> }} else {{ <chain of the later arms> }}` (a missing condition meaning `true`); arguments are {a[2:5]}, condition = {cond_def[-1:]}")
    # M2: first step of the fold
    firsts = [n for n in tab.walk(inner["body"]) if n.get("k") == "If" and tab.show(n["cond"]) == "typed_if_exp.is_none()"]
    fi = only(firsts, "`if typed_if_exp.is_none()` initialisation")
    inner_if = [n for n in fi["then"]["stmts"] if n.get("k") == "If"]
    ok2 = False
    if inner_if and tab.show(inner_if[0]["cond"]) == "condition.is_none()":
        th = tab.show(inner_if[0]["then"])
        el = tab.show(inner_if[0].get("else") or {})
        ok2 = "*typed_if_exp=Some(result.clone())" in th and "Break" in th and "code_block_with_implicit_return_revert" in el and "*typed_if_exp=Some(" in el
    rep.ob("M2-chain-ends-in-catch-all-or-revert", "fold start", ok2, TME, fi["l"],
           "the innermost else must be the last arm's result when it has no condition (catch-all), and a revert otherwise")
    # ---- M3 / M4 -----------------------------------------------------------------------------------------------------------
    tm = tab.tree(MAT)
    m = fn_named(tm, "matcher")
    disp = only([x for x in tab.matches_in(m["body"]) if tab.show(x.get("expr") or {}) == "variant"], "dispatch over the scrutinee variant")
    want = {"Or": "match_or", "CatchAll": "ReqDeclTree::none", "Literal": "match_literal", "Variable": "match_variable", "Constant": "match_constant",
            "StructScrutinee": "match_struct", "EnumScrutinee": "match_enum", "Tuple": "match_tuple"}
    seen = set()
    for arm in disp["arms"]:
        vs = [v.split("::")[-1] for v, _ in tab.pat_variants(arm["pat"])]
        if not vs:
            rep.ob("M3-dispatch-no-catch-all", "matcher", False, MAT, arm["l"], "the dispatch over pattern kinds has a catch-all arm: a new pattern kind would silently match everything or nothing")
            continue
        for v in vs:
            seen.add(v)
            callee = [tab.show(n["func"]) for n in tab.walk(arm["body"]) if n.get("k") == "Call" and re.fullmatch(r"(match_\w+|ReqDeclTree::\w+)", tab.show(n["func"]))]
            rep.ob("M3-pattern-kind-to-requirement", v, v in want and callee[:1] == [want[v]], MAT, arm["l"],
                   f"pattern kind {v} must be handled by {want.get(v)}; it is handled by {callee[:1]}")
    rep.ob("M3-pattern-kinds-covered", "matcher", seen == set(want), MAT, disp["l"], f"pattern kinds handled: {sorted(seen)}; expected {sorted(want)}")

    def ret_ctor(fname):
        fx = fn_named(tm, fname)
        return fx, [tab.show(n["func"]) for n in tab.walk(fx["body"]) if n.get("k") == "Call" and re.fullmatch(r"ReqDeclTree::(and|or|req|decl|none)", tab.show(n["func"]))]
    for fname, ctor in (("match_or", "ReqDeclTree::or"), ("match_struct", "ReqDeclTree::and"), ("match_tuple", "ReqDeclTree::and"), ("match_enum", "ReqDeclTree::and"),
                        ("match_literal", "ReqDeclTree::req"), ("match_constant", "ReqDeclTree::req"), ("match_variable", "ReqDeclTree::decl")):
        fx, cs = ret_ctor(fname)
        rep.ob("M3-requirement-node-kind", fname, bool(cs) and set(cs) == {ctor}, MAT, fx["l"], f"{fname} must build a `{ctor}` node; it builds {sorted(set(cs))}")
    # node constructors build the node of their name
    for cname, node in (("and", "ReqDeclNode::And"), ("or", "ReqDeclNode::Or")):
        impl_fns = [x for x in tab.walk(tm) if x.get("k") == "Fn" and x.get("name") == cname]
        for fx in impl_fns:
            built = [n["path"] for n in tab.walk(fx["body"]) if n.get("k") == "Path" and n["path"].startswith("ReqDeclNode::")]
            rep.ob("M3-requirement-node-kind", f"constructor {cname}#{impl_fns.index(fx) + 1}", bool(built) and all(b == node for b in built), MAT, fx["l"], f"`{cname}` must build {node}; builds {built}")
    # literal requirement: (value, literal)
    fx = fn_named(tm, "match_literal")
    req = only([i_ for l_, n_, _, i_ in tab.lets(fx["body"]) if n_ == ["req"]], "requirement tuple in match_literal")
    ok = req.get("k") == "Tuple" and len(req["elems"]) == 2 and tab.show(req["elems"][0]).startswith("exp.") and "Literal(scrutinee)" in tab.show(req["elems"][1])
    rep.ob("M4-literal-compared-with-the-value", "match_literal", ok, MAT, fx["l"], "a literal pattern must require `<matched value> == <the literal>`")
    # or: every alternative against the same value
    fx = fn_named(tm, "match_or")
    rec = [n for n in tab.walk(fx["body"]) if n.get("k") == "Call" and tab.show(n["func"]) == "matcher"]
    lp_or = [n for n in tab.walk(fx["body"]) if n.get("k") == "For" and tab.show(n["iter"]) == "alternatives"]
    ok = len(rec) == 1 and len(lp_or) >= 1 and tab.show(rec[0]["args"][3]) == "exp" and tab.show(rec[0]["args"][4]) == tab.show(lp_or[0]["pat"]) and \
        any(n.get("k") == "MethodCall" and n["method"] == "push" and tab.show(n["recv"]) == "nodes" for n in tab.walk(lp_or[0]["body"]))
    rep.ob("M4-every-alternative-against-the-same-value", "match_or", ok, MAT, fx["l"], "each alternative of an or-pattern must be matched against the same value and contribute a node")
    # struct
    fx = fn_named(tm, "match_struct")
    acc = only([n for n in tab.walk(fx["body"]) if n.get("k") == "Call" and tab.show(n["func"]) == "instantiate_struct_field_access"], "struct field access")
    accs = [tab.show(x) for x in acc["args"]]
    rec = only([n for n in tab.walk(fx["body"]) if n.get("k") == "Call" and tab.show(n["func"]) == "matcher"], "recursive matcher call in match_struct")
    sub_let = [n_[0] for l_, n_, _, i_ in tab.lets(fx["body"]) if i_ is not None and acc in list(tab.walk(i_))]
    loop = only([n for n in tab.walk(fx["body"]) if n.get("k") == "For"], "loop over struct fields")
    lb = {fl["name"]: (tab.show(fl["pat"]) if fl.get("pat") else fl["name"]) for fl in loop["pat"].get("fields", [])}
    some_arm = [a_ for mm in tab.matches_in(loop["body"]) for a_ in mm["arms"] if tab.show(a_["pat"]).startswith("Some(")]
    ok = "exp.clone()" in accs and f"{lb.get('field', 'field')}.clone()" in accs and bool(sub_let) and tab.show(rec["args"][3]) == "&" + sub_let[0] and \
        bool(some_arm) and tab.show(rec["args"][4]) == tab.show(some_arm[0]["pat"])[5:-1]
    rep.ob("M4-subpattern-against-own-component", "struct field", ok, MAT, acc["l"],
           f"a field's sub-pattern must be matched against the access of that same field of the matched value; access args {accs}, recursion on {tab.show(rec['args'][3])}")
    # tuple
    fx = fn_named(tm, "match_tuple")
    loop = only([n for n in tab.walk(fx["body"]) if n.get("k") == "For"], "loop over tuple elements")
    acc = only([n for n in tab.walk(fx["body"]) if n.get("k") == "Call" and tab.show(n["func"]) == "instantiate_tuple_index_access"], "tuple element access")
    rec = only([n for n in tab.walk(fx["body"]) if n.get("k") == "Call" and tab.show(n["func"]) == "matcher"], "recursive matcher call in match_tuple")
    mp = re.fullmatch(r"\((\w+),(\w+)\)", tab.show(loop["pat"]))
    sub_let = [n_[0] for l_, n_, _, i_ in tab.lets(fx["body"]) if i_ is not None and acc in list(tab.walk(i_))]
    ok = bool(mp) and re.fullmatch(r"elems\.into_iter\(\)\.enumerate\(\)", tab.show(loop["iter"])) is not None and mp.group(1) in [tab.show(x) for x in acc["args"]] and \
        "exp.clone()" in [tab.show(x) for x in acc["args"]] and bool(sub_let) and tab.show(rec["args"][3]) == "&" + sub_let[0] and tab.show(rec["args"][4]) == mp.group(2)
    rep.ob("M4-subpattern-against-own-component", "tuple element", ok, MAT, acc["l"], "the i-th element pattern must be matched against element i of the matched tuple (enumeration index, no reordering)")
    # enum
    fx = fn_named(tm, "match_enum")
    lets = {n_[0]: i_ for l_, n_, _, i_ in tab.lets(fx["body"]) if n_ and i_ is not None}
    tag = lets.get("enum_variant_req")
    ok_tag = tag is not None and tag.get("k") == "Tuple" and "EnumTag{exp:Box::new(exp.clone())}" in tab.show(tag["elems"][0]).replace(" ", "") and \
        "Literal::U64((variant.tag as u64))" in tab.show(tag["elems"][1])
    dc = lets.get("unsafe_downcast")
    ok_dc = dc is not None and tab.show(dc).startswith("instantiate_enum_unsafe_downcast(exp,variant,")
    rec = only([n for n in tab.walk(fx["body"]) if n.get("k") == "Call" and tab.show(n["func"]) == "matcher"], "recursive matcher call in match_enum")
    pushes = [(n["l"], tab.show(n["args"][0])) for n in tab.walk(fx["body"]) if n.get("k") == "MethodCall" and n["method"] == "push" and tab.show(n["recv"]) == "nodes"]
    ok_order = len(pushes) == 2 and "enum_variant_req" in pushes[0][1] and pushes[0][0] < pushes[1][0]
    rep.ob("M4-enum-tag-required-first", "match_enum", ok_tag and ok_order, MAT, fx["l"],
           "an enum pattern must first require `tag(value) == tag of the pattern's variant`, before any requirement on the payload")
    rep.ob("M4-subpattern-against-own-component", "enum payload", ok_dc and tab.show(rec["args"][3]) == "&unsafe_downcast" and tab.show(rec["args"][4]) == "enum_value_scrutinee", MAT, rec["l"],
           "the payload pattern must be matched against the value downcast to the same variant")
    # ---- M5 ----------------------------------------------------------------------------------------------------------------
    tb = tab.tree(TMB)
    rec = fn_named(tb, "recursively_instantiate_conditions_declarations_and_variant_index_vars")
    disp = only([x for x in tab.matches_in(rec["body"]) if tab.show(x.get("expr") or {}) == "req_decl_node"], "dispatch over requirement nodes")
    for arm in disp["arms"]:
        ps = tab.show(arm["pat"])
        if "ReqOrVarDecl::Req(" in ps:
            b = tab.show(arm["body"])
            rep.ob("M5-requirement-leaf-is-equality", "Req", re.search(r"\.eq_result\(handler,ctx\.by_ref\(\),req\.0\.clone\(\),req\.1\.clone\(\)\)", b) is not None and "neq_result" not in b, TMB, arm["l"],
                   "a requirement leaf (lhs, rhs) must become `lhs == rhs`")
    child = fn_named(tb, "instantiate_child_nodes_conditions_and_declarations")
    pm = only([x for x in tab.matches_in(child["body"]) if tab.show(x.get("expr") or {}) == "parent_node"], "dispatch over the parent node kind")
    for arm in pm["arms"]:
        ps = tab.show(arm["pat"])
        ops = sorted({n["method"] for n in tab.walk(arm["body"]) if n.get("k") == "MethodCall" and n["method"] in ("lazy_and", "lazy_or")})
        if ps.startswith("ReqDeclNode::And"):
            rep.ob("M5-and-node-is-lazy-and", "And", ops == ["lazy_and"], TMB, arm["l"], f"requirements of an AND node must be joined with `&&`; found {ops}")
        elif ps.startswith("ReqDeclNode::Or"):
            rep.ob("M5-or-node-is-lazy-or", "Or", ops == ["lazy_or"], TMB, arm["l"], f"requirements of an OR node must be joined with `||`; found {ops}")
    # absent condition = "always matches": an AND may drop absent conditions, an OR with an absent condition is itself absent (F17)
    for arm in pm["arms"]:
        ps = tab.show(arm["pat"])
        if not ps.startswith("ReqDeclNode::Or"):
            continue
        fl = [n for n in tab.walk(arm["body"]) if n.get("k") == "MethodCall" and n["method"] == "flatten" and "conditions" in tab.show(n["recv"])]
        bad = []
        for n in fl:
            guarded = False
            for i_ in [x for x in tab.walk(arm["body"]) if x.get("k") == "If" and x.get("else")]:
                c = tab.show(i_["cond"])
                if re.search(r"conditions\.iter\(\)\.any\(\|(\w+)\|\1\.is_none\(\)\)", c) and any(y is n for y in tab.walk(i_["else"])):
                    th = i_["then"]["stmts"]
                    guarded = bool(th) and tab.show(th[-1]) == "None"
            if not guarded:
                bad.append(n["l"])
        rep.ob("M5-or-with-an-unconditional-alternative-is-unconditional", "Or", bool(fl) and not bad, TMB, bad[0] if bad else arm["l"],
               "alternatives without a condition (`_`, a plain variable) match every value; the OR of the alternatives must then be unconditional too, but the "
               "absent conditions are simply dropped before the remaining ones are OR-ed (`1 | _` would become `x == 1`)")
    # the variables of an or-pattern are paired with tuple fields by position: names and fields must be read from the same (sorted) state
    vf = fn_named(tb, "instantiate_matched_or_variant_vars_expressions")
    sorts = [n for n in tab.walk(vf["body"]) if n.get("k") == "MethodCall" and n["method"] in ("sort_by", "sort_by_key", "sort", "sort_unstable_by", "sort_unstable_by_key", "sort_unstable", "reverse", "swap", "rotate_left", "rotate_right")]
    src_var = "carry_over_vars"
    if sorts:
        L = max(n["l"] for n in sorts)
        stale = []
        for l_, names_, _, init_ in tab.lets(vf["body"]):
            if init_ is None or l_ >= L or not names_:
                continue
            if any(x.get("k") == "Path" and x["path"] == src_var for x in tab.walk(init_)):
                later = [x["l"] for x in tab.walk(vf["body"]) if x.get("k") == "Path" and x["path"] == names_[0] and x["l"] > L]
                if later:
                    stale.append((names_[0], l_, later[0]))
        rep.ob("M5-or-variables-paired-with-fields-of-the-same-ordering", "instantiate_matched_or_variant_vars_expressions", not stale, TMB, stale[0][1] if stale else vf["l"],
               f"`{stale[0][0] if stale else ''}` is read from `{src_var}` before the alternatives' variables are re-ordered in place and used afterwards: names and tuple "
               "fields are paired by position, so a name list taken in the old order binds variables to each other's values")
    # a name suffix taken from the length of the shared list of or-pattern index variables identifies *this* or-pattern only if no
    # nested or-pattern is desugared (the list handed to a recursive call) between taking the length and using the suffix
    cn = fn_named(tb, "instantiate_child_nodes_conditions_and_declarations")
    snap = [(l_, names_[0], re.search(r"(\w+)\.len\(\)", tab.show(i_)).group(1)) for l_, names_, _, i_ in tab.lets(cn["body"])
            if names_ and i_ is not None and re.search(r"(\w+)\.len\(\)", tab.show(i_))]
    n_snap = 0
    for l_, nm, coll in snap:
        uses = [x["l"] for x in tab.walk(cn["body"]) if x.get("k") == "Path" and x["path"] == nm and x["l"] > l_]
        if not uses:
            continue
        n_snap += 1
        last = max(uses)
        handoffs = [c_ for c_ in tab.walk(cn["body"]) if c_.get("k") in ("Call", "MethodCall") and l_ < c_["l"] <= last and
                    any(tab.show(a_).replace("&mut ", "").replace("&", "") == coll for a_ in c_.get("args", []))]
        rep.ob("M5-or-index-suffix-taken-after-nested-patterns", f"{nm} = {coll}.len()", not handoffs, TMB, handoffs[0]["l"] if handoffs else l_,
               f"`{nm}` is computed from `{coll}.len()` and used after `{coll}` was handed to another call (a nested or-pattern registers its own index variable there): "
               "the outer and the nested or-pattern get the same suffix, the outer `__matched_or_variant_index_N` shadows the inner one and the inner variables are "
               "taken from the wrong alternative")
    rep.floor("M5-or-index-suffix-taken-after-nested-patterns", 1, n_snap)
    bce = fn_named(tb, "build_condition_expression")
    b = tab.show(bce["body"])
    rep.ob("M5-conditions-joined-in-order", "build_condition_expression", "operator(lhs.clone(),build_condition_expression(others,operator))" in b and "split_first()" in b, TMB, bce["l"],
           "the conditions must be joined left to right (first requirement evaluated first)")
    ti = tab.tree(INST)
    for nm, op in (("lazy_and", "LazyOp::And"), ("lazy_or", "LazyOp::Or")):
        fx = fn_named(ti, nm)
        rep.ob("M5-lazy-operator-kind", nm, f"instantiate_lazy_operator({op},lhs,rhs," in tab.show(fx["body"]), INST, fx["l"], f"{nm} must build a {op} of (lhs, rhs)")
    for nm, callee in (("eq_result", "std_ops_eq"), ("neq_result", "std_ops_neq")):
        fx = fn_named(ti, nm)
        rep.ob("M5-equality-helper", nm, f"TyExpression::{callee}(handler,ctx,vec!(lhs,rhs)" in tab.show(fx["body"]).replace("vec![", "vec!(") or f"{callee}(handler,ctx,vec!(lhs,rhs)" in tab.show(fx["body"]), INST, fx["l"],
               f"{nm} must call {callee} on (lhs, rhs)")
