"""C29 Unit tests run isolated and report exactly their outcome.

R1 outcome table: TestResult::passed, evaluated over the finite domain
   {ShouldRevert(Some c), ShouldRevert(None), ShouldNotRevert} x {Revert(c), Revert(c'), Return, ReturnData, ...},
   equals the stated table (finite-domain evaluation of the function's syntax tree; no execution)
R2 per-test state: each test's executor gets a TestSetup produced inside the per-test closure, the interpreter is built on
   a clone of its storage, and forc-test keeps no static / shared interpreter or storage
R3 the reported condition and state are the test's own: TestResult.condition comes from the entry's pass_condition and
   .state from this executor's interpreter run; logs come from this interpreter's receipts
R4 the declared expectation: #[test(should_revert = "<code>")] parses to ShouldRevert(Some(code)), bare should_revert to
   ShouldRevert(None), no attribute to ShouldNotRevert
"""
import re
from lib import tab, mir, panics, minieval
from lib.minieval import E, Some, NONE
from lib.common import AnalysisError

LEVEL = "other"
LIB = "forc-test/src/lib.rs"


_TRANSP = re.compile(r"Clone>::clone$|Deref>::deref$|::try_from$|::try_into$|::expect$|::unwrap$|Try>::branch$|Try::branch$|::from$|::into$|::as_str$|::as_ref$|ToOwned>::to_owned$|ToString>::to_string$")
_KEEP = re.compile(r"::(par_iter|iter|into_iter|into_par_iter|par_bridge|copied|cloned|by_ref|collect|collect_vec|as_slice|as_ref|deref|to_vec|clone|peekable|fuse)$")
_FILTER = re.compile(r"::(filter|filter_map|map|flat_map|filter_map_ok|skip|take|skip_while|take_while|step_by|rev|chain|enumerate)$")


def _origin(fn, o, depth=24):
    """(root, fields): follow single-def use/ref/cast and value-preserving calls backwards, collecting the field path read on the way.
    root is ('param', n), ('call', node) or ('local', n)."""
    defs = mir.defs_of(fn)
    fields = []
    while depth > 0:
        depth -= 1
        if "l" not in o:
            return ("const", o.get("c")), fields
        fl = [p_[3] for p_ in o.get("p", []) if isinstance(p_, list) and p_[0] == "f"]
        fields = fl + fields
        l = o["l"]
        ds = defs.get(l, [])
        if not ds and 1 <= l <= fn.nargs:
            return ("param", l), fields
        if len(ds) != 1:
            return ("local", l), fields
        _, _, k, srcs, node = ds[0]
        if k in ("use", "ref", "cast") and srcs:
            o = srcs[0]
            continue
        if k == "call":
            if _TRANSP.search(node.get("rn") or node.get("fp", "")) and srcs:
                o = srcs[0]
                continue
            return ("call", node), fields
        return ("local", l), fields
    return ("local", -1), fields


def _closure_arg(node):
    return None


def _closures_of(F, fn, call):
    """The closures (Fn) passed to an iterator adapter call."""
    defs = mir.defs_of(fn)
    out = []
    for a in call.get("a", [])[1:]:
        if "l" not in a:
            continue
        for _, _, k, _, st in defs.get(a["l"], []):
            if k == "agg" and st["r"].get("closure"):
                for cid in F.children.get(fn.id, []):
                    if F.fns[cid].id == st["r"]["closure"] or F.fns[cid].get("f") == st["r"]["closure"]:
                        out.append(F.fns[cid])
    return out


def _closure_of(F, fn, call):
    """The last closure passed to an iterator adapter call (the per-item one for map_init / map_with style adapters), if any."""
    ks = _closures_of(F, fn, call)
    return ks[-1] if ks else None


def _is_test_of(fn, o, item_root):
    """Is operand `o` the `.kind.test()` of the item whose root is `item_root` (through `as Some.0`)?"""
    r, fl = _origin(fn, o)
    if r[0] != "call" or not r[1].get("fp", "").endswith("PkgEntryKind::test"):
        return False
    r2, fl2 = _origin(fn, r[1]["a"][0])
    return r2 == item_root and fl2[-1:] == ["kind"]


def _only_tests_for_testness(F, k):
    """A filter closure that asks nothing but `entry.kind.test()` (keeps exactly the test entries)."""
    called = [t_.get("fp", "") for _, t_ in k.calls()]
    own = [x for x in called if not re.match(r"core::|<core::|alloc::|<alloc::|std::|<std::", x) and not re.search(r"^<core::|Option<", x)]
    return bool(own) and all(x.endswith("PkgEntryKind::test") for x in own)


def _walk_stream(F, fn, o, hops=16):
    """Walk an iterator expression backwards. Returns (verdict, detail, selective) where verdict is
    'paired' (items are (entry, entry.kind.test()) pairs made by one closure), 'entries' (plain stream over a collection),
    'zip-mismatch', or 'unknown'; `selective` counts the adapters that drop or reorder items for a reason other than not being a test."""
    selective = 0
    testsel = 0
    while hops > 0:
        hops -= 1
        r, fl = _origin(fn, o)
        if r[0] == "param" and r[1] == 1 and fn.kind == "closure" and fl:
            # a captured variable: continue in the function that creates this closure
            parent = None
            for pf in F.fns.values():
                if fn.id in F.children.get(pf.id, []):
                    parent = pf
            if parent is None:
                return "unknown", f"captured variable of {fn.name} with no parent", (selective, testsel)
            nxt = None
            for _, _, st in parent.stmts():
                if st["r"]["k"] == "agg" and st["r"].get("closure") and st["r"].get("closure") in (fn.id, fn.get("f")):
                    nxt = st["r"]["o"][int(fl[0])]
            if nxt is None:
                return "unknown", f"closure creation of {fn.name} not found", (selective, testsel)
            fn, o = parent, nxt
            continue
        if r[0] != "call":
            return "entries", f"{r} {fl}", (selective, testsel)
        call = r[1]
        nm = call.get("fp", "")
        if re.search(r"::zip$", nm):
            va, da, sa = _walk_stream(F, fn, call["a"][0], hops)
            vb, db, sb = _walk_stream(F, fn, call["a"][1], hops)
            if sa != sb or (sa[1] > 0) != (sb[1] > 0):
                return "zip-mismatch", f"the two zipped streams drop different items ((selective adapters, is-a-test selections): {sa} vs {sb})", (selective, testsel)
            sa, sb = sa[0], sb[0]
            if sa and sb:
                return "unknown", "zip of two streams that are both filtered: equivalence of the filters is not decided", (selective, testsel)
            return "zip-ok", f"{da} / {db}", (selective, testsel)
        k = _closure_of(F, fn, call)
        if re.search(r"::(filter_map|map)$", nm) and k is not None:
            # does this closure make the pair?
            pairs = []
            for _, _, st in k.stmts():
                if st["r"]["k"] == "agg" and st["r"].get("adt") == "(tuple)" and len(st["r"]["o"]) == 2:
                    pairs.append(st)
            if pairs:
                item = ("param", 2)
                good = all(_origin(k, st["r"]["o"][0]) == (item, []) and _is_test_of(k, st["r"]["o"][1], item) for st in pairs)
                if good:
                    return "paired", k.name, (selective, testsel)
                return "unknown", f"{k.name} builds a pair that is not (entry, entry.kind.test())", (selective, testsel)
            if re.search(r"::filter_map$", nm):
                if _only_tests_for_testness(F, k):
                    testsel += 1
                else:
                    selective += 1
            o = call["a"][0]
            continue
        if re.search(r"::filter$", nm) and k is not None:
            if _only_tests_for_testness(F, k):
                testsel += 1
            else:
                selective += 1
            o = call["a"][0]
            continue
        if _KEEP.search(nm):
            o = call["a"][0]
            continue
        if _FILTER.search(nm):
            selective += 1
            o = call["a"][0]
            continue
        return "entries", nm, (selective, testsel)
    return "unknown", "too long", (selective, testsel)


def _rule_pairing(rep, F, rt, c, bt):
    """R3b: the PkgTestEntry (pass condition, span) handed to the executor belongs to the bytecode entry whose offset and name it runs."""
    b = F.fn("forc_test::execute::TestExecutor::build")
    idx = {v: int(k) - 1 for k, v in (b.get("vars") or {}).items() if int(k) <= b.nargs}
    need = ("test_instruction_index", "test_entry", "name")
    if not all(n in idx for n in need):
        raise AnalysisError(f"C29 R3b: TestExecutor::build parameters {need} not found ({sorted(idx)})")
    te, te_f = _origin(c, bt["a"][idx["test_entry"]])
    nm, nm_f = _origin(c, bt["a"][idx["name"]])
    of, of_f = _origin(c, bt["a"][idx["test_instruction_index"]])
    inst = c.name.split("::{closure")[0]
    why = ""
    ok = False
    if nm != of or nm_f[:-1] != of_f[:-1]:
        why = f"name and instruction offset come from different entries ({nm} {nm_f} vs {of} {of_f})"
    elif te[0] == "call" and te[1].get("fp", "").endswith("PkgEntryKind::test"):
        r2, fl2 = _origin(c, te[1]["a"][0])
        ok = r2 == nm and fl2[:-1] == nm_f[:-2] and fl2[-1:] == ["kind"]
        why = "test_entry is `.kind.test()` of a different entry than the one whose name/offset are run"
    elif te[0] == "param" and nm == te and te_f[:1] == ["1"] and nm_f[:1] == ["0"]:
        # both halves of one stream item: find who makes the items
        parent = [pf for pf in F.fns.values() if c.id in F.children.get(pf.id, [])]
        site = None
        for pf in parent:
            for _, t_ in pf.calls():
                k = _closure_of(F, pf, t_)
                if k is not None and k.id == c.id:
                    site = (pf, t_)
        if site is None:
            raise AnalysisError("C29 R3b: adapter call that receives the per-test closure not found")
        verdict, detail, _sel = _walk_stream(F, site[0], site[1]["a"][0])
        if verdict == "paired":
            ok = True
        elif verdict == "zip-mismatch":
            why = f"the (entry, test_entry) items are made by zipping two differently filtered streams: {detail}; under a test filter a test is judged by another test's pass condition"
        elif verdict == "zip-ok":
            ok = True
        else:
            raise AnalysisError(f"C29 R3b: cannot establish who pairs bytecode entries with their PkgTestEntry ({verdict}: {detail})")
    else:
        raise AnalysisError(f"C29 R3b: unrecognised origin of test_entry {te} {te_f} / name {nm} {nm_f}")
    rep.ob("R3b-test-entry-belongs-to-the-entry-run", inst, ok, c.file, bt["ln"], why)


def run(rep):
    rep.explanation = (
        "Decides: the pass/fail verdict is exactly the stated function of (declared expectation, final VM state) on a finite "
        "domain that separates every case the code can distinguish; every test gets its own freshly produced setup and an "
        "interpreter built on a private clone of the storage, with no process-wide state in forc-test; the reported condition, "
        "state and logs are the test's own. What the VM does with the storage is trusted.")
    rep.trusted = ["syn", "rustc MIR", "fuel-vm Interpreter::with_storage owns its storage", "MemoryStorage::clone is a deep copy"]
    t = tab.tree(LIB)
    f = tab.fn(t, "passed", "TestResult")
    conds = [("ShouldRevert(Some(0))", E("ShouldRevert", Some(0))), ("ShouldRevert(Some(42))", E("ShouldRevert", Some(42))),
             ("ShouldRevert(None)", E("ShouldRevert", NONE)), ("ShouldNotRevert", E("ShouldNotRevert"))]
    states = [("Revert(0)", E("Revert", 0)), ("Revert(42)", E("Revert", 42)), ("Revert(7)", E("Revert", 7)),
              ("Return(0)", E("Return", 0)), ("Return(42)", E("Return", 42)), ("ReturnData", E("ReturnData", 0)),
              ("RunProgram", E("RunProgram", 0)), ("VerifyPredicate", E("VerifyPredicate", 0))]

    def expected(c, s):
        rev = s[1] == "Revert"
        if c[1] == "ShouldNotRevert":
            return not rev
        want = c[2][0]
        if want == NONE:
            return rev
        return rev and s[2][0] == want[2][0]
    for cn, c in conds:
        for sn, s in states:
            env = {"self": ("struct", {"condition": c, "state": s})}
            try:
                got = minieval.ev(f["body"], env)
            except minieval.Unsupported as e:
                raise AnalysisError(f"R1: TestResult::passed uses syntax the finite-domain evaluator does not cover ({e}); the rule cannot decide")
            want = expected(c, s)
            rep.ob("R1-verdict-table", f"{cn} x {sn}", got is want, LIB, f.get("l", 0),
                   f"TestResult::passed() is {got} for a test declared {cn} that ended in {sn}; the property requires {want}")
    rep.floor("R1-verdict-table", 32)

    # ---- R2 isolation ------------------------------------------------------------------------------------------------------
    F = mir.Facts(["forc_test"])
    rt = F.fn("forc_test::PackageTests::run_tests")
    clos = [F.fns[c] for c in F.children.get(rt.id, [])]
    allc = list(clos)
    for c in clos:
        allc += [F.fns[x] for x in F.children.get(c.id, [])]
    per_test = [c for c in allc if any((t_.get("fp", "")).endswith("TestExecutor::build") for _, t_ in c.calls())]
    rep.ob("R2-per-test-closure", rt.name, len(per_test) == 1, rt.file, rt.lo, f"expected one per-test closure building a TestExecutor (found {len(per_test)})")
    if len(per_test) == 1:
        c = per_test[0]
        bt = [t_ for _, t_ in c.calls() if (t_.get("fp", "")).endswith("TestExecutor::build")][0]
        r = panics.root_call(c, bt["a"][2])
        hops = 0
        while r and r[0] == "call" and re.search(r"Try>::branch$|Try::branch$", r[1].get("rn") or r[1].get("fp", "")) and hops < 3:
            hops += 1
            r = panics.root_call(c, r[1]["a"][0])
        fresh = bool(r and r[0] == "call" and re.search(r"PackageTests::setup$|::deploy$", r[1].get("fp", "")))
        rep.ob("R2-setup-produced-per-test", c.name.split("::{closure")[0], fresh, c.file, bt["ln"],
               "the TestSetup handed to TestExecutor::build is not produced by a setup()/deploy() call inside the per-test closure "
               f"(found {r and (r[1].get('fp') if r[0] == 'call' else r)}): tests would share storage, so one test's writes are visible to another")
        ex = [t_ for _, t_ in c.calls() if (t_.get("fp", "")).endswith("TestExecutor::execute")]
        rep.ob("R2-executor-used-once", c.name.split("::{closure")[0], len(ex) == 1, c.file, c.lo, "each executor must run exactly one test")
        # ... and the executor that runs the test is the one built for it in this invocation, not one kept from an earlier test
        for ex_t in ex:
            r2 = panics.root_call(c, ex_t["a"][0], depth=20)
            hops = 0
            while r2 and r2[0] == "call" and re.search(r"Try>::branch$|Try::branch$", r2[1].get("rn") or r2[1].get("fp", "")) and hops < 3:
                hops += 1
                r2 = panics.root_call(c, r2[1]["a"][0], depth=20)
            own = bool(r2 and r2[0] == "call" and r2[1] is bt)
            rep.ob("R2-test-runs-on-its-own-executor", c.name.split("::{closure")[0], own, c.file, ex_t["ln"],
                   "the executor on which the test runs is not (only) the one built from this test's fresh setup in this invocation "
                   f"(it derives from {r2 and (r2[1].get('fp') if r2[0] == 'call' else r2)}): an executor kept across tests keeps the interpreter's storage, "
                   "so one test's contract storage writes are visible to the next")
        others = [t_ for _, t_ in c.calls() if re.search(r"forc_test::execute::TestExecutor::(?!build$|execute$)\w+$", t_.get("fp", ""))]
        rep.ob("R2-executor-not-repointed", c.name.split("::{closure")[0], not others, c.file, others[0]["ln"] if others else c.lo,
               f"the per-test closure calls {others[0].get('fp') if others else ''} on an executor: an executor is built for one test and only executed")
        _rule_pairing(rep, F, rt, c, bt)
    b = F.fn("forc_test::execute::TestExecutor::build")
    ws = [t_ for _, t_ in b.calls() if (t_.get("fp", "")).endswith("Interpreter::<M, S, Tx, Ecal, V>::with_storage") or "Interpreter" in t_.get("fp", "") and t_.get("fp", "").endswith("with_storage")]
    ok = False
    if len(ws) == 1:
        r = panics.trace_value(b, ws[0]["a"][1])
        # storage local assigned from `<MemoryStorage as Clone>::clone(test_setup.storage())`
        if r and r[0] == "call" and re.search(r"Clone>::clone$", r[1].get("rn") or r[1].get("fp", "")):
            src = panics.root_call(b, r[1]["a"][0])
            ok = bool(src and src[0] == "call" and (src[1].get("fp", "")).endswith("TestSetup::storage"))
    rep.ob("R2-interpreter-owns-cloned-storage", b.name, ok, b.file, b.lo,
           "the interpreter must be built with Interpreter::with_storage(.., test_setup.storage().clone(), ..): a shared or borrowed storage leaks "
           "state between tests")
    # no statics / shared cells in forc-test holding VM state
    bad_static = []
    for rel in ("forc-test/src/lib.rs", "forc-test/src/execute.rs", "forc-test/src/setup.rs", "forc-test/src/ecal.rs"):
        try:
            tt = tab.tree(rel)
        except AnalysisError:
            continue
        for it in tab.items(tt):
            if it.get("k") == "Static" or (it.get("k") == "Macro" and it.get("name") in ("lazy_static", "thread_local")):
                bad_static.append(f"{rel}:{it.get('l')}")
    rep.ob("R2-no-process-wide-state", "forc-test", not bad_static, "forc-test/src", 0, f"static / thread_local items in forc-test: {bad_static}")

    # ---- R3 reported fields ------------------------------------------------------------------------------------------------
    n3 = 0
    for f_ in F.fns.values():
        if f_.exp or f_.crate != "forc_test":
            continue
        for bi, si, s in f_.stmts():
            r = s["r"]
            if r["k"] == "agg" and r.get("adt") == "forc_test::TestResult":
                n3 += 1
                byname = dict(zip(r.get("fields", []), r["o"]))
                c = panics.trace_value(f_, byname["condition"]) if "condition" in byname and "l" in byname["condition"] else None
                cond_ok = False
                if c and c[0] == "call" and re.search(r"Clone>::clone$", c[1].get("rn") or c[1].get("fp", "")):
                    a0 = c[1]["a"][0]
                    cond_ok = _has_field(f_, a0, "pass_condition")
                lg = panics.root_call(f_, byname.get("logs", {})) if "logs" in byname else None
                logs_ok = bool(lg and lg[0] == "call" and re.search(r"get_gas_and_receipts$|Try>::branch$", lg[1].get("fp", "") + (lg[1].get("rn") or "")))
                rep.ob("R3-result-fields-are-the-tests-own", f"{f_.name}|TestResult#{n3}", cond_ok and logs_ok, f_.file, s.get("ln", f_.lo),
                       f"TestResult must carry condition = self.test_entry.pass_condition.clone() ({cond_ok}) and logs derived from this interpreter's "
                       f"receipts ({logs_ok})")
    rep.floor("R3-result-fields-are-the-tests-own", 3, n3)
    # get_gas_and_receipts keeps only Log / LogData receipts of the receipts it is given (E-TAB)
    et = tab.tree("forc-test/src/execute.rs")
    gg = tab.fn(et, "get_gas_and_receipts")
    kept = {tab.last_seg(p.get("path", "")) for n in tab.walk(gg["body"]) if n.get("k") == "Macro" and n.get("name") == "matches" and n.get("matches")
            for p in tab.walk(n["matches"]["pat"]) if p.get("k") in ("PStruct", "PTupleStruct", "PPath")}
    rep.ob("R3-logs-filter", "get_gas_and_receipts", {"Log", "LogData"} <= kept, "forc-test/src/execute.rs", gg.get("l", 0),
           f"get_gas_and_receipts must keep Log and LogData receipts (keeps {sorted(kept)})")

    # ---- R4 declared expectation (forc-pkg) --------------------------------------------------------------------------------------
    G = mir.Facts(["forc_pkg"])
    fns = [g for g in G.fns.values() if any(s["r"]["k"] == "agg" and s["r"].get("adt", "").endswith("TestPassCondition") for _, _, s in g.stmts())]
    kinds = set()
    for g in fns:
        for _, _, s in g.stmts():
            if s["r"]["k"] == "agg" and s["r"].get("adt", "").endswith("TestPassCondition"):
                kinds.add(s["r"].get("var"))
    rep.ob("R4-expectation-variants-built", "forc_pkg::pkg", kinds == {"ShouldRevert", "ShouldNotRevert"}, "forc-pkg/src/pkg.rs", 0,
           f"the test entry's pass condition must be built as ShouldRevert(..) or ShouldNotRevert (found {sorted(kinds)})")
    pt = tab.tree("forc-pkg/src/pkg.rs")
    holder = [f_ for f_ in tab.items(pt, "Fn") if any(tab.last_seg(p.get("path", "")) == "ShouldNotRevert" for p in tab.find(f_["body"], "Path"))]
    ok4 = False
    if holder:
        for m in tab.matches_in(holder[-1]["body"]):
            arms = tab.arms_by_variant(m)
            if "None" in arms and "Some" in arms:
                nb = arms["None"][0][0]["body"]
                sb = arms["Some"][0][0]["body"]
                none_ok = any(tab.last_seg(p["path"]) == "ShouldNotRevert" for p in tab.find(nb, "Path") + ([nb] if nb.get("k") == "Path" else []))
                some_ok = any(tab.last_seg(p["path"]) == "ShouldRevert" for p in tab.find(sb, "Path")) and \
                    not any(tab.last_seg(p["path"]) == "ShouldNotRevert" for p in tab.find(sb, "Path"))
                if none_ok and some_ok:
                    ok4 = True
    rep.ob("R4-attribute-to-expectation", "forc_pkg::pkg", ok4, "forc-pkg/src/pkg.rs", holder[-1].get("l", 0) if holder else 0,
           "no `should_revert` attribute must give ShouldNotRevert and a `should_revert` attribute ShouldRevert(..)")


def _has_field(f, o, name, depth=8):
    defs = mir.defs_of(f)
    while depth > 0 and "l" in o:
        depth -= 1
        if any(isinstance(p, list) and p[0] == "f" and p[3] == name for p in o.get("p", [])):
            return True
        ds = defs.get(o["l"], [])
        if len(ds) != 1 or not ds[0][3]:
            return False
        o = ds[0][3][0]
    return False
