"""C06 Compile-time evaluation agrees with run-time evaluation — structural clauses.

R1 partial-arithmetic ban (E-MIR) in the compile-time evaluation files; R2 operator tables use the evaluators of
spec/const_ops.txt (E-TAB); R3 const-fn call scoping discipline (E-MIR path rule)."""
import os, re
from collections import defaultdict
from lib import mir, tab, sites
from lib.common import VERIF, AnalysisError

LEVEL = "other"
CE = "sway-core/src/ir_generation/const_eval.rs"
CONSTS = "sway-ir/src/optimize/constants.rs"
FILES = (CE, CONSTS, "sway-types/src/u256.rs", "sway-ir/src/optimize/conditional_constprop.rs")
VALUE_INT = ("u8", "u16", "u32", "u64", "u128")


def load_spec():
    ev, ident = {}, set()
    for ln in open(os.path.join(VERIF, "spec/const_ops.txt")):
        ln = ln.strip()
        if not ln or ln.startswith("#"):
            continue
        p = ln.split()
        if p[0] == "identity":
            ident.add((p[1], p[2], p[3]))
        else:
            ev[(p[0], p[1])] = set(p[2].split(","))
    return ev, ident


def partial_sites(F):
    out = []
    for fn in F.fns.values():
        if fn.file not in FILES or fn.exp:
            continue
        cnt = defaultdict(int)
        for bi, bb in enumerate(fn.bbs):
            if bb.get("cu"):
                continue
            t = bb["t"]
            label = None
            if t["k"] == "assert" and t["msg"].startswith(("Overflow", "DivisionByZero", "RemainderByZero")):
                ty = "?"
                for st in bb["s"]:
                    if st["r"]["k"] == "bin" and st["d"]["l"] == t["o"][0].get("l"):
                        ty = st["r"]["ty"]
                if ty == "?":
                    # div/rem asserts test the divisor directly
                    for o in t["o"]:
                        if "l" in o:
                            ty = fn.locals[o["l"]]
                    for st in bb["s"]:
                        if st["r"]["k"] == "bin":
                            ty = st["r"]["ty"]
                if ty not in VALUE_INT:
                    continue
                label = f"assert:{t['msg']}:{ty}"
            elif t["k"] == "call":
                nm = t.get("rn") or t.get("fp", "")
                m = re.search(r"core::ops::(?:arith|bit)::(Add|Sub|Mul|Div|Rem|Shl|Shr|Neg)(?:Assign)?\b", nm)
                slf = t.get("self", "")
                if m and ("BigUint" in nm + slf or "U256" in nm + slf):
                    label = f"call:{m.group(1)}"
                m2 = re.search(r"core::num::<impl u(?:8|16|32|64|128)>::((?:wrapping|overflowing|saturating|unchecked)_(?:add|sub|mul|div|rem|shl|shr|pow|neg))$", nm)
                if m2:
                    label = f"call:{m2.group(1)}"
            if not label:
                continue
            cnt[label] += 1
            file, line = fn.loc(t)
            out.append(dict(fn=fn, key=f"{fn.name}|{label}#{cnt[label]}", label=label, file=file, line=line, t=t))
    return out


def rule_r1(rep, F):
    tab_ = sites.load_sites("spec/c06_sites.txt")
    used = set()
    for s in partial_sites(F):
        ok = s["key"] in tab_
        used.add(s["key"])
        rep.ob("R1-partial-arithmetic-reviewed", s["key"], ok, s["file"], s["line"],
               ("reviewed: " + tab_[s["key"]]) if ok else
               f"{s['label']} on a value-typed integer in compile-time evaluation code: panics (crash) or wraps (substitutes a "
               "value) exactly where run time reverts; use the checked evaluator of spec/const_ops.txt")
        # raw operator impls of U256/BigUint may only be called from u256.rs itself
        if s["label"].startswith("call:") and s["fn"].file != "sway-types/src/u256.rs" and \
                re.match(r"call:(Add|Sub|Mul|Div|Rem|Shl|Shr|Neg)$", s["label"]):
            rep.ob("R1-no-raw-operator", s["key"], False, s["file"], s["line"],
                   f"raw `{s['label'][5:]}` operator on U256/BigUint outside sway-types/src/u256.rs: partial operators panic on "
                   "zero divisors / underflow; const evaluation must go through U256::checked_*")
    rep.floor("R1-partial-arithmetic-reviewed", 15)
    rep.analysed["partial_sites_stale_entries"] = sorted(set(tab_) - used)


def _kind_of(pat):
    """Value kind named by a pattern like `Uint(arg1)` / `ConstantValue::U256(x)` / `Some(Uint(0))`."""
    for v, p in tab.pat_variants(pat):
        n = tab.last_seg(v)
        if n in ("Uint", "U256", "B256", "Bool"):
            return n, p
        if n == "Some" and p.get("elems"):
            return _kind_of(p["elems"][0])
    return None, None


def _evaluator(body, lhs):
    """Method called on `lhs` (possibly inside closures / chains) or the binary operator applied to it."""
    out = set()
    for n in tab.walk(body):
        if n.get("k") == "MethodCall":
            r = n["recv"]
            while r.get("k") in ("Ref", "Unary"):
                r = r["expr"]
            if r.get("k") == "Path" and r["path"] == lhs:
                out.add(n["method"])
        if n.get("k") == "Binary":
            l = n["left"]
            while l.get("k") in ("Ref", "Unary"):
                l = l["expr"]
            if l.get("k") == "Path" and l["path"] == lhs:
                out.add(n["op"])
    return out


INTR2OP = {"Add": "Add", "Sub": "Sub", "Mul": "Mul", "Div": "Div", "Mod": "Mod", "And": "And", "Or": "Or", "Xor": "Xor",
           "Lsh": "Lsh", "Rsh": "Rsh"}


def rule_r2(rep):
    spec, ident = load_spec()
    # --- const_eval_intrinsic
    f = tab.fn(tab.tree(CE), "const_eval_intrinsic")
    n_rows = 0
    for m in tab.matches_in(f["body"]):
        for a in m["arms"]:
            if a["pat"].get("k") != "PTuple" or len(a["pat"]["elems"]) != 2:
                continue
            k1, p1 = _kind_of(a["pat"]["elems"][0])
            if not k1 or not p1.get("elems"):
                continue
            lhs = tab.binders(p1["elems"][0])
            if not lhs:
                continue
            for m2 in tab.matches_in(a["body"]):
                for a2 in m2["arms"]:
                    for v, _ in tab.pat_variants(a2["pat"]):
                        segs = v.split("::")
                        if len(segs) == 2 and segs[0] == "Intrinsic" and segs[1] in INTR2OP:
                            op = INTR2OP[segs[1]]
                            ev = _evaluator(a2["body"], lhs[0])
                            allowed = spec.get((op, k1))
                            n_rows += 1
                            rep.ob("R2-intrinsic-evaluator", f"const_eval_intrinsic:{op}:{k1}",
                                   allowed is not None and len(ev) == 1 and ev <= allowed, CE, a2["l"],
                                   f"__{op.lower()} on {k1} constants is evaluated with {sorted(ev)}; allowed: {sorted(allowed or [])}")
    rep.floor("R2-intrinsic-evaluator", 25, n_rows)
    # --- sway-ir combine_binary_op
    f = tab.fn(tab.tree(CONSTS), "combine_binary_op")
    n_rows = 0
    for m in tab.matches_in(f["body"]):
        for a in m["arms"]:
            p = a["pat"]
            if p.get("k") != "PTuple" or len(p["elems"]) != 3:
                continue
            ops = [tab.last_seg(v) for v, _ in tab.pat_variants(p["elems"][0])]
            k1, p1 = _kind_of(p["elems"][1])
            if not k1 or not ops or ops[0] not in INTR2OP or not p1.get("elems"):
                continue
            lhs = tab.binders(p1["elems"][0])
            ev = _evaluator(a["body"], lhs[0]) if lhs else set()
            allowed = spec.get((ops[0], k1))
            n_rows += 1
            casts = sorted({n["ty"] for n in tab.walk(a["body"]) if n.get("k") == "Cast" and re.fullmatch(r"u8|u16|u32|i8|i16|i32|usize", n.get("ty", ""))})
            rep.ob("R2-fold-no-truncating-cast", f"combine_binary_op:{ops[0]}:{k1}", not casts, CONSTS, a["l"],
                   f"IR constant folding of {ops[0]} narrows an operand with `as {casts[0] if casts else ''}`: high bits are dropped silently and the folded constant differs from "
                   "what the VM computes (e.g. a shift amount of 2^32 + 2); use a checked conversion that declines to fold")
            rep.ob("R2-fold-evaluator", f"combine_binary_op:{ops[0]}:{k1}",
                   allowed is not None and len(ev) == 1 and ev <= allowed, CONSTS, a["l"],
                   f"IR constant folding of {ops[0]} on {k1} uses {sorted(ev)}; allowed: {sorted(allowed or [])}")
    rep.floor("R2-fold-evaluator", 20, n_rows)
    # --- identities of remove_useless_binary_op
    f = tab.fn(tab.tree(CONSTS), "remove_useless_binary_op")
    n_rows = 0
    for m in tab.matches_in(f["body"]):
        for a in m["arms"]:
            p = a["pat"]
            if p.get("k") != "PTuple" or len(p["elems"]) != 3:
                continue
            ops = [tab.last_seg(v) for v, _ in tab.pat_variants(p["elems"][0])]
            if not ops or ops[0] not in INTR2OP:
                continue
            for side, el in (("L", p["elems"][1]), ("R", p["elems"][2])):
                lits = [n for n in tab.walk(el) if n.get("k") == "PLit"]
                if lits:
                    c = str(lits[0]["lit"].get("v"))
                    n_rows += 1
                    import C07
                    res = [x.get("path") for x in tab.walk(a["body"]) if x.get("k") == "Path" and x.get("path") in ("arg1", "arg2")]
                    vmop = {"Add": "ADD", "Sub": "SUB", "Mul": "MUL", "Div": "DIV", "Mod": "MOD", "Lsh": "SLL", "Rsh": "SRL", "And": "AND", "Or": "OR", "Xor": "XOR"}.get(ops[0])
                    cex = "unrecognised arm" if (len(res) != 1 or vmop is None) else \
                        C07.identity_counterexample(vmop, "left" if side == "L" else "right", c, "left" if res[0] == "arg1" else "right")
                    rep.ob("R2-identity", f"remove_useless_binary_op:{ops[0]}:{side}{c}", cex is None, CONSTS, a["l"],
                           f"`{ops[0]}` with {side}-operand {c} is rewritten to {res}, which is not valid for every "
                           f"value (definedness included): {cex}")
    rep.floor("R2-identity", 6, n_rows)


def rule_r3(rep, F):
    """const fn application: arguments are evaluated in the caller's environment and every binding pushed for the
    call is popped again: in const_eval_fn_application no CFG path leads from a `known_consts.push` to the evaluation of
    an argument, and every path from a push to the function's return passes a `pop`."""
    fn = F.fn("sway_core::ir_generation::const_eval::const_eval_fn_application")
    push, pop, evalarg = [], [], []
    for bi, t in fn.calls():
        nm = t.get("rn") or t.get("fp", "")
        if re.search(r"MappedStack::<K, V>::push$", nm):
            push.append(bi)
        elif re.search(r"MappedStack::<K, V>::pop$", nm):
            pop.append(bi)
        elif nm.endswith("const_eval::const_eval_typed_expr"):
            evalarg.append(bi)
    rep.ob("R3-anchors", "push/pop/eval present", bool(push and pop and evalarg), fn.file, fn.lo,
           f"const_eval_fn_application: push={len(push)} pop={len(pop)} arg-eval={len(evalarg)} call sites")
    if not (push and pop and evalarg):
        return
    succ = fn.succ()
    for b in push:
        # reachability strictly after the push
        seen = set()
        st = list(succ[b])
        while st:
            x = st.pop()
            if x in seen:
                continue
            seen.add(x)
            st.extend(succ[x])
        hit = [e for e in evalarg if e in seen]
        rep.ob("R3-args-evaluated-in-caller-env", f"push#{push.index(b)+1}", not hit, fn.file, fn.term(b)["ln"],
               "an actual argument can be evaluated after a parameter of the callee was already bound: a later argument "
               "that mentions a caller variable with the same name as an earlier parameter sees the wrong value")
        # every path push -> return passes through the pop loop (its header, so that the zero-iteration path counts)
        cut = set(pop)
        dom = fn.dominators()
        for pb in pop:
            reach_from_pop = fn.reachable(pb)
            hdrs = [h for h in dom.get(pb, ()) if h != pb and h in reach_from_pop and h in fn.reachable(0)]
            # closest enclosing loop header = the one dominated by all other candidates
            hdrs = [h for h in hdrs if pb in fn.reachable(h)]
            if hdrs:
                h = max(hdrs, key=lambda x: len(dom.get(x, ())))
                cut.add(h)
        seen = set()
        st = [x for x in succ[b]]
        reach_ret = False
        while st:
            x = st.pop()
            if x in seen or x in cut:
                continue
            seen.add(x)
            if fn.term(x)["k"] == "ret":
                reach_ret = True
            st.extend(succ[x])
        rep.ob("R3-push-pop-balanced", f"push#{push.index(b)+1}", not reach_ret, fn.file, fn.term(b)["ln"],
               "a path from binding a parameter to the function's return never pops it: the callee's parameters leak into the "
               "caller's constant environment")


def run(rep):
    rep.explanation = (
        "Decides three structural clauses of compile-time evaluation: (R1) in const_eval.rs, sway-ir constants.rs / "
        "conditional_constprop.rs and sway-types u256.rs no partial (panicking or wrapping) arithmetic on value-typed "
        "integers or U256/BigUint exists outside the reviewed evaluator implementations; (R2) each (operator, value kind) "
        "of const_eval_intrinsic and of IR constant folding uses the evaluator that yields no constant exactly when run time "
        "reverts, and operand-eliminating identities are valid for every value; (R3) const-fn application evaluates "
        "arguments in the caller's environment and unbinds parameters on every path. Does not decide aggregates or casts.")
    rep.trusted = ["rustc MIR", "syn", "spec/const_ops.txt", "u64::checked_* / num-bigint semantics"]
    F = mir.Facts(["sway_core", "sway_ir", "sway_types"])
    rep.analysed = dict(files=list(FILES))
    rule_r1(rep, F)
    rule_r2(rep)
    rule_r3(rep, F)
