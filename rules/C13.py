"""C13 Configurables patched at the reported offsets are observed — structural clauses.

R1 distinct configurables never share a data-section entry: Entry::equiv conjoins name equality; insert_data_value
   routes by the entry-name kind
R2 one offset function: reported configurable offsets and the addresses code uses both come from
   DataSection::absolute_idx_to_offset, which walks the same entry sequence with the same per-entry size and
   alignment as serialize_to_bytes
R3 a configurable's default is never used as a compile-time constant by the asm optimizers:
   DataSection::get_data_word answers only for non-configurable entries
R4 the encoded-size lattice that sizes a configurable's slot: AbiEncodeSizeHint::{min,max,range_from_min_max} are
   commutative (mirrored arms agree) and select lower bounds in min / upper bounds in max
"""
import re
from lib import tab, mir, panics
from lib.common import AnalysisError

LEVEL = "other"
DS = "sway-core/src/asm_generation/fuel/data_section.rs"
INFO = "sway-core/src/type_system/info.rs"
DSM = "sway_core::asm_generation::fuel::data_section"


def canon(node, roles):
    """Canonical text of an expression with binder names replaced by their roles; min/max operands sorted."""
    k = node.get("k")
    if k == "Path":
        p = node["path"]
        return roles.get(p, p)
    if k == "MethodCall":
        recv = canon(node["recv"], roles)
        args = [canon(a, roles) for a in node.get("args", [])]
        if node["method"] in ("min", "max") and len(args) == 1:
            a, b = sorted([recv, args[0]])
            return f"{node['method']}({a},{b})"
        return f"{recv}.{node['method']}({','.join(args)})"
    if k == "Call":
        return f"{canon(node['func'], roles)}({','.join(canon(a, roles) for a in node.get('args', []))})"
    if k in ("Unary", "Ref", "Paren", "Deref"):
        return canon(node.get("expr", {}), roles)
    if k == "Block":
        return ";".join(canon(s, roles) for s in node.get("stmts", []))
    if k == "Let":
        nm = (node.get("pat") or {}).get("name")
        return f"let {nm}={canon(node.get('init') or {}, roles)}"
    if k == "Lit":
        return str(node.get("v"))
    if k == "Binary":
        return f"({canon(node['left'], roles)}{node['op']}{canon(node['right'], roles)})"
    return k or "?"


def tuple_arms(fn):
    """arms of the `match (a, b)` of a binary lattice operator: list of ((variantA, bindersA), (variantB, bindersB), arm)."""
    ms = tab.matches_in(fn["body"])
    if not ms:
        return []
    out = []
    for a in ms[0]["arms"]:
        p = a["pat"]
        if p.get("k") != "PTuple" or len(p.get("elems", [])) != 2:
            continue
        sides = []
        for e in p["elems"]:
            while e.get("k") == "PRef":
                e = e["pat"]
            if e.get("k") in ("PTupleStruct", "PPath"):
                v = tab.last_seg(e["path"])
                bs = []
                for x in e.get("elems", []):
                    bs.append(x.get("name") if x.get("k") == "PIdent" else None)
                sides.append((v, bs))
            else:
                sides.append(("_", []))
        out.append((sides[0], sides[1], a))
    return out


def run(rep):
    rep.explanation = (
        "Decides: two configurables can never be merged into one data-section entry; the offsets reported for configurables and the "
        "addresses the code loads from are computed by one function that agrees with the serializer on entry order, size and "
        "alignment; the asm optimizers cannot treat a configurable's default as a known constant; the encoded-size lattice used to "
        "size a configurable's slot is commutative and picks the right bounds. That the decode of a patched value yields the patched "
        "value is not decided.")
    rep.trusted = ["rustc MIR", "syn"]
    F = mir.Facts(["sway_core"])
    # ---- R1 -------------------------------------------------------------------------------------------------------------
    eq = F.fn(DSM + "::Entry::equiv")
    name_eq = [(bi, t) for bi, t in eq.calls() if re.search(r"PartialEq>::eq$|PartialEq::eq$", t.get("rn") or t.get("fp", "")) and "EntryName" in t.get("fn", "")]
    ok = len(name_eq) >= 1
    if ok:
        # the name comparison is reached only on the path where the data are equivalent, and its result is the returned value
        rb = [bi for bi, si, s in eq.stmts() if s["d"]["l"] == 0]
        ok = any(panics.trace_value(eq, s["r"]["o"][0]) and panics.trace_value(eq, s["r"]["o"][0])[1] is name_eq[0][1]
                 for bi, si, s in eq.stmts() if s["d"]["l"] == 0 and s["r"].get("o") and "l" in s["r"]["o"][0]) or \
            any(t.get("d", {}).get("l") == 0 for _, t in name_eq)
    rep.ob("R1-equiv-compares-names", eq.name, ok, eq.file, eq.lo,
           "Entry::equiv must return `data equivalent && self.name == entry.name`: without the name two configurables with equal defaults share "
           "one entry, and patching one changes the other")
    t = tab.tree(DS)
    ins = tab.fn(t, "insert_data_value")
    ms = tab.matches_in(ins["body"])
    routed = False
    if ms:
        arms = tab.arms_by_variant(ms[0])
        def fields(a):
            return {x["member"] for x in tab.find(a["body"], "Field")} | {tab.last_seg(p["path"]) for p in tab.find(a["body"], "Path")}
        routed = "NonConfigurable" in arms and "Configurable" in arms and \
            {"non_configurables", "NonConfigurable"} <= fields(arms["NonConfigurable"][0][0]) and \
            {"configurables", "Configurable"} <= fields(arms["Configurable"][0][0]) and not tab.has_wildcard_arm(ms[0])
    rep.ob("R1-insert-routes-by-name-kind", "insert_data_value", routed, DS, ins.get("l", 0),
           "insert_data_value must put Configurable-named entries in `configurables` (DataIdEntryKind::Configurable) and the rest in `non_configurables`")

    # ---- R2 -------------------------------------------------------------------------------------------------------------
    off = F.fn(DSM + "::DataSection::absolute_idx_to_offset")
    ser = F.fn(DSM + "::DataSection::serialize_to_bytes")
    def uses(f):
        fam = [f] + [F.fns[c] for c in F.children.get(f.id, [])]
        it = any((t.get("fp", "")).endswith("DataSection::iter_all_entries") for g in fam for _, t in g.calls())
        tb = any((t.get("fp", "")).endswith("Entry::to_bytes") for g in fam for _, t in g.calls())
        return it, tb
    for f in (off, ser):
        it, tb = uses(f)
        rep.ob("R2-offset-and-serializer-agree", f.name, it and tb, f.file, f.lo,
               f"{f.name.split('::')[-1]} must walk iter_all_entries() and size each entry with Entry::to_bytes (iter_all_entries: {it}, to_bytes: {tb})")
    for fname in ("absolute_idx_to_offset", "serialize_to_bytes"):
        fn_ = tab.fn(t, fname)
        al = [n for n in tab.find(fn_["body"], "Macro") if n.get("name") == "size_bytes_round_up_to_word_alignment"]
        rep.ob("R2-offset-and-serializer-agree", f"{fname}|alignment", len(al) == 1, DS, fn_.get("l", 0),
               f"{fname} must align every entry with size_bytes_round_up_to_word_alignment! (found {len(al)})")
    # reported offsets: to_bytecode_mut computes them with absolute_idx_to_offset(id + num_nonconfigurables)
    fa = [f for f in F.fns.values() if f.file == "sway-core/src/asm_generation/finalized_asm.rs" and not f.exp]
    rep_off = []
    for f in fa:
        for bi, tt in f.calls():
            if mir.callee_id(tt) == off.id:
                rep_off.append((f, tt))
    # the index that is turned into an offset counts *every* configurable, in data-section order: nothing may be filtered, skipped or
    # reversed between `configurables.iter()` and `.enumerate()` (the position in the enumeration is the position in the section)
    tfa = tab.tree("sway-core/src/asm_generation/finalized_asm.rs")
    enums = [n for n in tab.walk(tfa) if n.get("k") == "MethodCall" and n["method"] == "enumerate" and "configurables" in tab.show(n["recv"])]
    for k_, n in enumerate(enums):
        chain = tab.show(n["recv"])
        ok_chain = re.fullmatch(r"(\w+\.)*configurables\.iter\(\)", chain) is not None
        rep.ob("R2-configurable-index-enumerates-every-entry", f"finalized_asm.rs#{k_ + 1}", ok_chain, "sway-core/src/asm_generation/finalized_asm.rs", n["l"],
               f"the configurables are enumerated through `{chain[:120]}`: an adapter before `.enumerate()` makes the enumeration index differ from the entry's "
               "position in the data section, so every following configurable is reported at a wrong offset (and patched over its neighbour)")
    if not enums:
        raise AnalysisError("C13: no `.configurables ... .enumerate()` in finalized_asm.rs")
    rep.ob("R2-reported-offsets-use-the-offset-function", "finalized_asm.rs", len(rep_off) >= 1, "sway-core/src/asm_generation/finalized_asm.rs", 0,
           "the configurable offsets reported to the ABI must be computed with DataSection::absolute_idx_to_offset")
    ft = tab.tree("sway-core/src/asm_generation/finalized_asm.rs")
    tbm = [f_ for f_ in tab.fns(ft, "to_bytecode_mut") if any(n.get("method") == "absolute_idx_to_offset" for n in tab.find(f_["body"], "MethodCall"))]
    if len(tbm) != 1:
        raise AnalysisError(f"to_bytecode_mut computing the configurable offsets: found {len(tbm)}")
    tbm = tbm[0]
    shift = False
    for n in tab.walk(tbm["body"]):
        if n.get("k") == "MethodCall" and n.get("method") == "absolute_idx_to_offset" and n.get("args"):
            a = n["args"][0]
            if a.get("k") == "Binary" and a.get("op") == "+" and {"id", "num_nonconfigurables"} == {a["left"].get("path"), a["right"].get("path")}:
                shift = True
    rep.ob("R2-configurable-index-shifted-by-nonconfigurables", "to_bytecode_mut", shift, "sway-core/src/asm_generation/finalized_asm.rs", tbm.get("l", 0),
           "configurables come after all non-configurables in iter_all_entries(): entry `id` of `configurables` is absolute index id + non_configurables.len()")
    # code side: data_id_to_offset = absolute_idx_to_offset(absolute_idx(id)); absolute_idx adds non_configurables.len() for Configurable ids
    d2o = F.fn(DSM + "::DataSection::data_id_to_offset")
    rep.ob("R2-code-addresses-use-the-offset-function", d2o.name, any(mir.callee_id(tt) == off.id for _, tt in d2o.calls()), d2o.file, d2o.lo,
           "data_id_to_offset must go through absolute_idx_to_offset")
    ai = tab.fn(t, "absolute_idx")
    ams = tab.matches_in(ai["body"])
    ok_ai = False
    if ams:
        arms = tab.arms_by_variant(ams[0])
        if "Configurable" in arms and "NonConfigurable" in arms:
            cb = arms["Configurable"][0][0]["body"]
            nb = arms["NonConfigurable"][0][0]["body"]
            ok_ai = any(x.get("member") == "non_configurables" for x in tab.find(cb, "Field")) and any(b.get("op") == "+" for b in tab.find(cb, "Binary")) \
                and not tab.find(nb, "Binary")
    rep.ob("R2-configurable-index-shifted-by-nonconfigurables", "absolute_idx", ok_ai, DS, ai.get("l", 0),
           "absolute_idx must add non_configurables.len() for Configurable ids and nothing for NonConfigurable ids")
    iae = tab.fn(t, "iter_all_entries")
    order = [x["member"] for x in sorted(tab.find(iae["body"], "Field"), key=lambda x: x.get("l", 0)) if x.get("member") in ("non_configurables", "configurables")]
    chain = [n for n in tab.find(iae["body"], "MethodCall") if n.get("method") == "chain"]
    if len(chain) == 1:
        first = [x["member"] for x in tab.find(chain[0]["recv"], "Field") if x.get("member") in ("non_configurables", "configurables")]
        second = [x["member"] for a in chain[0]["args"] for x in tab.find(a, "Field") if x.get("member") in ("non_configurables", "configurables")]
        order = first + second
    rep.ob("R2-entry-order", "iter_all_entries", order == ["non_configurables", "configurables"], DS, iae.get("l", 0),
           f"iter_all_entries must yield non-configurables then configurables (found {order})")

    # ---- R3 -------------------------------------------------------------------------------------------------------------
    # The asm optimizers treat `LoadDataId(reg, id)` of a word entry as a known constant (DataSection::get_data_word). That is
    # sound only while no LoadDataId ever names a Configurable entry. Decide it by who builds what:
    #  (a) EntryName::Configurable is constructed only in compile_configurable and initialise_constant;
    #  (b) every caller of initialise_constant passes `None` as the configurable name;
    #  (c) the function that reads configurable_v0_data_id builds AddrDataId (an address), never LoadDataId.
    FAB = "sway_core::asm_generation::fuel::fuel_asm_builder::FuelAsmBuilder::<'ir, 'eng>"
    allowed = {"compile_configurable", "initialise_constant"}
    n_cfg = 0
    for f in F.fns.values():
        if f.exp:
            continue
        for bi, si, st in f.stmts():
            r = st["r"]
            if r["k"] == "agg" and r.get("adt", "").endswith("data_section::EntryName") and r.get("var") == "Configurable":
                n_cfg += 1
                fam = f.name.split("::{closure")[0]
                rep.ob("R3-configurable-entries-built-only-by", fam, fam.split("::")[-1] in allowed, f.file, st.get("ln", f.lo),
                       "EntryName::Configurable is built outside compile_configurable / initialise_constant: a new path can hand a configurable's "
                       "DataId to LoadDataId, whose value the asm optimizers take as a compile-time constant")
    rep.floor("R3-configurable-entries-built-only-by", 3, n_cfg)
    ic = [f for f in F.fns.values() if f.name.endswith("::initialise_constant") and f.kind != "closure"]
    rep.ob("R3-anchor", "initialise_constant", len(ic) == 1, DS, 0, "FuelAsmBuilder::initialise_constant not found")
    if len(ic) == 1:
        callers = 0
        for f in F.fns.values():
            for bi, tt in f.calls():
                if mir.callee_id(tt) == ic[0].id:
                    callers += 1
                    a = tt["a"][2] if len(tt["a"]) > 2 else {}
                    v = panics.trace_value(f, a) if "l" in a else ("const", a)
                    is_none = bool(v and ((v[0] == "const" and "None" in v[1].get("c", "")) or
                                          (v[0] == "stmt" and v[1]["r"]["k"] == "agg" and v[1]["r"].get("var") == "None")))
                    rep.ob("R3-constants-are-never-named-configurable", f.name.split("::{closure")[0], is_none, f.file, tt["ln"],
                           "initialise_constant is called with a configurable name: it emits LoadDataId for the entry, and the asm optimizers fold the "
                           "configurable's default into the code (a patched value is then not observed)")
        rep.floor("R3-constants-are-never-named-configurable", 1, callers)
    gc = [f for f in F.fns.values() if f.name.endswith("::compile_get_config") and f.kind != "closure" and "fuel_asm_builder" in f.name]
    ok_gc = False
    if len(gc) == 1:
        kinds = {st["r"].get("var") for _, _, st in gc[0].stmts() if st["r"]["k"] == "agg" and st["r"].get("adt", "").endswith("virtual_ops::VirtualOp")}
        ok_gc = "AddrDataId" in kinds and "LoadDataId" not in kinds
    rep.ob("R3-v0-configurable-read-by-address", "compile_get_config", ok_gc, "sway-core/src/asm_generation/fuel/fuel_asm_builder.rs", gc[0].lo if gc else 0,
           "compile_get_config must take the address of the configurable's data entry (AddrDataId) and load through memory; LoadDataId would let "
           "the asm optimizers fold the default")
    adv_gdw = tab.fn(t, "get_data_word")
    rep.note("advisory: DataSection::get_data_word also answers for Configurable ids; this is unreachable while R3 holds (no LoadDataId names a "
             "configurable entry)")

    # ---- R4 -------------------------------------------------------------------------------------------------------------
    it = tab.tree(INFO)
    for fname, bound in (("min", 0), ("max", 1), ("range_from_min_max", None)):
        fn_ = tab.fn(it, fname, "AbiEncodeSizeHint")
        arms = tuple_arms(fn_)
        rep.ob("R4-lattice-arms-found", f"AbiEncodeSizeHint::{fname}", len(arms) >= 8, INFO, fn_.get("l", 0), f"expected the 8 (a, b) arms, found {len(arms)}")
        table = {}
        for (va, ba), (vb, bb_), a in arms:
            if va == "_" or vb == "_":
                continue
            roles = {}
            for i, b in enumerate(ba):
                if b:
                    roles[b] = f"{va}.{i}"
            for i, b in enumerate(bb_):
                if b:
                    roles[b] = f"{vb}.{i}" if vb != va else f"{vb}'.{i}"
            body = canon(a["body"], roles)
            if va == vb:
                # same-variant arm: primed/unprimed are interchangeable
                body = body.replace("'", "")
            table[(va, vb)] = (body, a.get("l", 0), roles)
            if bound is not None:
                for side, bs in ((va, ba), (vb, bb_)):
                    if side == "Range":
                        used = [i for i, b in enumerate(bs) if b and b in tab.idents_used(a["body"])]
                        rep.ob("R4-lattice-bound-selection", f"{fname}|({va},{vb})|{side}", used == [bound], INFO, a.get("l", 0),
                               f"AbiEncodeSizeHint::{fname} must combine the {'lower' if bound == 0 else 'upper'} bound of a Range (field {bound}); "
                               f"the ({va}, {vb}) arm uses field(s) {used}: the maximum encoded size of a nested enum is under-estimated, its configurable "
                               "slot is too small, and a patched value overwrites the next configurable")
        for (va, vb), (body, line, _) in table.items():
            if va != vb and (vb, va) in table:
                rep.ob("R4-lattice-commutative", f"{fname}|({va},{vb})", body == table[(vb, va)][0], INFO, line,
                       f"AbiEncodeSizeHint::{fname} is not symmetric: arm ({va}, {vb}) computes `{body}` but ({vb}, {va}) computes `{table[(vb, va)][0]}`")
    rep.floor("R4-lattice-commutative", 3)
    rep.floor("R4-lattice-bound-selection", 6)
