"""C30 Dependency fetching is crash-safe — publish discipline (typestate on paths).

FINAL = the checkout directory commit_path(..) that <git::Pinned as Fetch>::fetch re-uses whenever it exists.
R1 nothing is created or written at (or under) FINAL: no create_dir_all / fs::write / File::create / checkout target_dir
   on a FINAL-derived path; only exists / remove_dir_all / the destination of fs::rename
R2 exactly one fs::rename publishes FINAL; its source is a sibling of FINAL (same directory, so the rename is atomic) and
   every other file-system effect of the fetch dominates it (nothing is written after publication)
R3 the re-use guard tests existence of the very path that only the rename creates, under the write lock of path_lock, and
   the fetch it guards is the one that publishes that path
R4 the temporary git repository used for the clone lives under a different directory than the checkouts it publishes
"""
import re
from lib import mir, panics, slices

LEVEL = "other"
G = "forc_pkg::source::git"
CHILD = re.compile(r"(Deref>::deref|::as_ref|::as_path|::borrow|Clone>::clone|::to_path_buf|::to_owned|Path::join|PathBuf::push|::into|::from|AsRef<.*>>::as_ref)$")
SIBLING = re.compile(r"Path::(with_extension|with_file_name|with_added_extension)$")
WRITE_EFFECT = re.compile(r"^(std::fs::(create_dir_all|create_dir|write|copy|hard_link|File::create|File::create_new|OpenOptions::open|set_permissions)|"
                          r"std::os::unix::fs::symlink|git2::build::CheckoutBuilder::<'cb>::target_dir|std::fs::rename)$")
OK_ON_FINAL = re.compile(r"^(std::path::Path::(exists|is_dir|try_exists)|std::fs::remove_dir_all|std::fs::remove_dir)$")


def classify(F, f, o, final_names, depth=14):
    """'final' | 'sibling' | 'other' for a path operand, following transparent / child-producing calls."""
    defs = mir.defs_of(f)
    sib = False
    while depth > 0 and "l" in o:
        depth -= 1
        nm = f.var(o["l"])
        if nm in final_names and not sib:
            return "final"
        if nm in final_names and sib:
            return "sibling"
        if f.kind == "closure" and o["l"] == 1:
            cap = slices._capture_name(f, o)
            if cap in final_names:
                return "sibling" if sib else "final"
            return "other"
        ds = defs.get(o["l"], [])
        if len(ds) != 1:
            return "other"
        _, _, k, srcs, node = ds[0]
        if k in ("use", "ref", "cast") and srcs:
            o = srcs[0]
            continue
        if k == "call" and srcs:
            cn = node.get("rn") or node.get("fp", "")
            fp = node.get("fp", "")
            if fp.endswith("forc_pkg::source::git::commit_path"):
                return "sibling" if sib else "final"
            if SIBLING.search(fp):
                sib = True
                o = srcs[0]
                continue
            if CHILD.search(cn) or CHILD.search(fp):
                o = srcs[0]
                continue
        return "other"
    return "other"


def run(rep):
    F = mir.Facts(["forc_pkg", "forc_util"])
    rep.explanation = (
        "Decides the publish discipline that makes an interrupted or failed git fetch invisible to later builds: the directory whose "
        "existence means 'complete checkout' is never created or written in place; it comes into existence only by one rename of a "
        "sibling directory, after every other file-system effect of the fetch; the re-use guard tests exactly that path under the "
        "write lock. The atomicity of rename(2) within a directory and the advisory lock are trusted.")
    rep.trusted = ["rustc MIR + resolution", "rename(2) is atomic within one directory", "forc_util::path_lock advisory lock", "git2 checkout writes only under target_dir"]
    fetch = F.fn(G + "::fetch")
    clos = [F.fns[c] for c in F.children.get(fetch.id, [])]
    fns = [fetch] + clos
    final_names = set()
    for bi, t in fetch.calls():
        if (t.get("fp", "")).endswith("git::commit_path") and "d" in t and fetch.var(t["d"]["l"]):
            final_names.add(fetch.var(t["d"]["l"]))
    rep.ob("R0-final-path-anchor", fetch.name, len(final_names) == 1, fetch.file, fetch.lo,
           f"git::fetch must bind commit_path(..) to one variable (found {sorted(final_names)})")
    renames, effects = [], []
    for f in fns:
        for bi, t in f.calls():
            nm = t.get("fp", "")
            if not (WRITE_EFFECT.search(nm) or OK_ON_FINAL.search(nm) or nm.endswith("Repository::checkout_head")):
                continue
            args = t.get("a", [])
            if nm == "std::fs::rename":
                renames.append((f, bi, t))
                continue
            if nm.endswith("Repository::checkout_head"):
                effects.append((f, bi, t))
                continue
            # the path argument: first arg for std::fs::*, second for CheckoutBuilder::target_dir
            parg = args[1] if nm.endswith("target_dir") and len(args) > 1 else (args[0] if args else None)
            cls = classify(F, f, parg, final_names) if parg is not None else "other"
            if WRITE_EFFECT.search(nm):
                effects.append((f, bi, t))
                rep.ob("R1-nothing-written-at-final-path", f"{f.name.split('::{closure')[0]}|{nm.split('::')[-1]}", cls != "final", f.file, t["ln"],
                       f"{nm} operates on the final checkout directory (or a path under it): if the fetch stops here the directory exists but is "
                       "incomplete, and every later build re-uses it as the checkout of the pinned commit")
            elif cls == "final":
                rep.ob("R1-final-path-use-allowed", f"{f.name.split('::{closure')[0]}|{nm.split('::')[-1]}", True, f.file, t["ln"], "")
    rep.floor("R1-nothing-written-at-final-path", 3)
    rep.ob("R2-single-publishing-rename", fetch.name, len(renames) == 1, fetch.file, fetch.lo,
           f"git::fetch must publish the checkout with exactly one fs::rename (found {len(renames)})")
    if len(renames) == 1:
        f, rbi, rt = renames[0]
        src = classify(F, f, rt["a"][0], final_names)
        dst = classify(F, f, rt["a"][1], final_names)
        rep.ob("R2-rename-source-is-sibling-destination-is-final", fetch.name, src == "sibling" and dst == "final", f.file, rt["ln"],
               f"fs::rename must move a sibling of the final directory (found {src}) onto the final directory (found {dst}): a source in another "
               "directory may be on another file system (rename fails or degrades to a copy), and any other destination does not publish")
        for g, bi, t in effects:
            ok = g.id == f.id and f.dominates(bi, rbi) and bi != rbi
            rep.ob("R2-effects-before-publication", f"{g.name.split('::{closure')[0]}|{(t.get('fp','')).split('::')[-1]}", ok, g.file, t["ln"],
                   f"{t.get('fp')} does not precede the publishing rename on every path: the published directory can still change after it became visible")
        # the index file is part of the checkout: written into the sibling before publication (search_source_locally needs it)
    # ---- R3 re-use guard -----------------------------------------------------------------------------------------------
    pf = F.fn("<forc_pkg::source::git::Pinned as forc_pkg::source::Fetch>::fetch")
    ex = [(bi, t) for bi, t in pf.calls() if (t.get("fp", "")) == "std::path::Path::exists"]
    fc = [(bi, t) for bi, t in pf.calls() if mir.callee_id(t) == fetch.id]
    wl = [(bi, t) for bi, t in pf.calls() if re.search(r"RwLock::write$|::write$", t.get("fp", "")) and "fd_lock" in (t.get("fp", "") + t.get("fn", ""))]
    rep.ob("R3-guard-shape", pf.name, len(ex) == 1 and len(fc) == 1 and len(wl) >= 1, pf.file, pf.lo,
           f"Fetch::fetch must test `repo_path.exists()` once, call git::fetch once and take the write lock (found {len(ex)}/{len(fc)}/{len(wl)})")
    if len(ex) == 1 and len(fc) == 1 and wl:
        ebi, et = ex[0]
        fbi, ft = fc[0]
        on_param = panics.origin_var(pf, et["a"][0]) == "repo_path"
        guarded = False
        for sbi, call, true_s, false_s in panics.switch_guards(pf):
            if call is et:
                guarded = pf.dominates(false_s, fbi) and pf.preds()[false_s] == [sbi]
        locked = any(pf.dominates(wbi, ebi) for wbi, _ in wl)
        rep.ob("R3-reuse-guard", pf.name, on_param and guarded and locked, pf.file, et["ln"],
               f"the checkout must be fetched exactly when `repo_path` does not exist (tested on the parameter: {on_param}; fetch on the false edge: "
               f"{guarded}), with the write lock held across test and fetch ({locked})")
    # the path handed to Fetch::fetch is commit_path of the same pinned source (Pin::pin returns it)
    pin = F.fn("<forc_pkg::source::git::Source as forc_pkg::source::Pin>::pin")
    cp = [t for _, t in pin.calls() if (t.get("fp", "")).endswith("git::commit_path")]
    rep.ob("R3-pin-returns-commit_path", pin.name, len(cp) == 1, pin.file, pin.lo, "Pin::pin must return commit_path(..) as the checkout location")
    # ---- R4 tmp repo elsewhere -----------------------------------------------------------------------------------------------
    tmpd = F.fn(G + "::tmp_git_repo_dir")
    lit = any(re.search(r'"tmp"', str(t.get("a"))) for _, t in tmpd.calls()) or any('"tmp"' in str(s) for _, _, s in tmpd.stmts())
    rep.ob("R4-clone-dir-separate", tmpd.name, lit, tmpd.file, tmpd.lo, "the temporary clone must live under checkouts/tmp, not among the published checkouts")
