import sys, os, importlib
sys.path.insert(0, os.path.dirname(os.path.abspath(__file__)))
from lib import common


def main():
    if len(sys.argv) < 2:
        print("usage: check <ID> [--tier quick|thorough] [--replay FILE]")
        return 2
    pid = sys.argv[1]
    args = sys.argv[2:]
    if "--tier" in args:
        os.environ["VERIF_TIER"] = args[args.index("--tier") + 1]
    if "--replay" in args:
        import json
        r = json.load(open(args[args.index("--replay") + 1]))
        print(f"replaying {r.get('key')} (re-evaluating the whole rule set of {pid} on the current tree)")
        os.environ["VERIF_REPLAY_KEY"] = r.get("key", "")
    mod = importlib.import_module(pid)
    level = getattr(mod, "LEVEL", "other")
    return common.main_wrapper(pid, mod.run, level=level)


if __name__ == "__main__":
    sys.exit(main())
