#!/bin/bash
# Build the extractors offline and warm the nightly dependency cache. Run once after a restore.
set -euo pipefail
cd "$(dirname "$0")"
export CARGO_NET_OFFLINE=true
mkdir -p .cache
( cd engines/mirfacts && cargo +nightly build --release --offline -q )
if [ -d engines/tabfacts ]; then
  ( cd engines/tabfacts && cargo build --release --offline -q )
fi
# warm nightly `check` of the dependency graph + first fact extraction
python3 - <<'PY'
import sys; sys.path.insert(0, "rules")
from lib import mir
print(mir.ensure_facts())
PY
