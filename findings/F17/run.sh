#!/bin/bash
# usage: run.sh <path to a forc binary built from the tree under test> <path to sway-lib-std>
# exit 0 when both tests pass in debug and release (property holds for this input), 1 otherwise
FORC="$1"; STD="$2"
HERE="$(cd "$(dirname "$0")" && pwd)"
W=$(mktemp -d /var/tmp/f17.XXXX); cp -r "$HERE/proj" "$W/"; sed -i "s|STD_PATH|$STD|" "$W/proj/Forc.toml"
rc=0
"$FORC" test --offline --path "$W/proj" || rc=1
"$FORC" test --offline --release --path "$W/proj" || rc=1
rm -rf "$W"; exit $rc
