// Triage for F9 (C16): drop into sway-parse/tests/ and run `cargo test --offline -p sway-parse --test unclosed_block_comment`.
use sway_error::handler::Handler;

fn lex_no_panic(src: &str) -> bool {
    let s = src.to_string();
    std::panic::catch_unwind(move || {
        let handler = Handler::default();
        let _ = sway_parse::lex(&handler, s.as_str().into(), 0, s.len(), None);
        let (errors, _, _) = handler.consume();
        errors.len()
    })
    .is_ok()
}

#[test]
fn unclosed_block_comment_ending_in_multibyte_char() {
    assert!(lex_no_panic("/* e"), "ascii control case");
    assert!(lex_no_panic("/* é"), "unclosed block comment whose last character is multi-byte panicked the lexer");
    assert!(lex_no_panic("fn f() {} /* /* 漢"), "nested unclosed comment ending in a 3-byte character");
}
