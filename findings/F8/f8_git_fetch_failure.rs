//! A checkout that fails half way (here: one tree entry whose name is too long for the file system)
//! must not leave a directory that later builds take for the complete checkout of the pinned commit.
use forc_pkg::source::git::{commit_path, fetch, Pinned, Reference, Source, Url};
use std::{path::Path, str::FromStr};

fn commit_repo_with_unwritable_entry(dir: &Path) -> String {
    let repo = git2::Repository::init(dir).unwrap();
    let blob = |s: &str| repo.blob(s.as_bytes()).unwrap();
    let manifest = blob("[project]\nauthors = [\"x\"]\nentry = \"lib.sw\"\nlicense = \"Apache-2.0\"\nname = \"dep\"\n");
    let lib = blob("library;\n");
    let junk = blob("x");
    let mut src = repo.treebuilder(None).unwrap();
    src.insert("lib.sw", lib, 0o100644).unwrap();
    let src = src.write().unwrap();
    let mut root = repo.treebuilder(None).unwrap();
    root.insert("Forc.toml", manifest, 0o100644).unwrap();
    // 300 bytes: longer than NAME_MAX, so writing this entry fails with ENAMETOOLONG.
    root.insert("a".repeat(300), junk, 0o100644).unwrap();
    root.insert("src", src, 0o040000).unwrap();
    let tree = repo.find_tree(root.write().unwrap()).unwrap();
    let sig = git2::Signature::now("t", "t@example.com").unwrap();
    let oid = repo.commit(Some("refs/heads/master"), &sig, &sig, "c", &tree, &[]).unwrap();
    oid.to_string()
}

#[test]
fn failed_checkout_is_not_taken_for_a_complete_one() {
    let home = tempfile::tempdir().unwrap();
    std::env::set_var("HOME", home.path());
    let upstream = tempfile::tempdir().unwrap();
    let commit_hash = commit_repo_with_unwritable_entry(upstream.path());

    let repo = Url::from_str(&format!("file://{}", upstream.path().display())).unwrap();
    let pinned = Pinned {
        source: Source { repo: repo.clone(), reference: Reference::Branch("master".into()) },
        commit_hash: commit_hash.clone(),
    };
    let res = fetch(1, "dep", &pinned);
    assert!(res.is_err(), "the checkout was expected to fail on the over-long entry: {res:?}");

    // `<git::Pinned as Fetch>::fetch` re-uses the checkout iff this path exists.
    let path = commit_path("dep", &repo, &commit_hash);
    assert!(
        !path.exists(),
        "a failed fetch left {} behind (contains: {:?}); the next build compiles against this partial checkout",
        path.display(),
        std::fs::read_dir(&path).map(|d| d.map(|e| e.unwrap().file_name()).collect::<Vec<_>>())
    );
}
