use swayfmt::Formatter;

#[test]
fn enum_where_clause_is_preserved() {
    let src = r#"library;

enum Wrapper<T> where T: Eq {
    Some: T,
    None: (),
}
"#;
    let mut formatter = Formatter::default();
    let out = Formatter::format(&mut formatter, src.into()).unwrap();
    assert!(out.contains("where"), "formatted output lost the where clause:\n{out}");
    assert!(out.contains("T: Eq"), "formatted output lost the trait bound:\n{out}");
}

#[test]
fn enum_where_clause_output_is_stable() {
    let src = "library;\n\nenum Wrapper<T> where T: Eq {\n    Some: T,\n    None: (),\n}\n";
    let mut formatter = Formatter::default();
    let once = Formatter::format(&mut formatter, src.into()).unwrap();
    let mut formatter = Formatter::default();
    let twice = Formatter::format(&mut formatter, once.as_str().into()).unwrap();
    assert_eq!(once, twice);
    println!("{once}");
}
