// Triage demonstration for finding F1 (property C21): drop into forc-pkg/tests/ and run
//   cargo test --offline -p forc-pkg --test lock_panics
// Every case must yield Err (or Ok), never a panic.
use std::io::Write;

fn load(lock_text: &str) -> Result<(), String> {
    let mut f = tempfile::NamedTempFile::new().unwrap();
    f.write_all(lock_text.as_bytes()).unwrap();
    let lock = forc_pkg::Lock::from_path(f.path()).map_err(|e| e.to_string())?;
    lock.to_graph().map(|_| ()).map_err(|e| e.to_string())
}

fn case(name: &str, text: &str) -> bool {
    let t = text.to_string();
    let r = std::panic::catch_unwind(move || load(&t));
    match r {
        Ok(r) => {
            println!("{name}: no panic ({:?})", r.map_err(|e| e.chars().take(60).collect::<String>()));
            true
        }
        Err(_) => {
            println!("{name}: PANIC");
            false
        }
    }
}

#[test]
fn malformed_lock_files_never_panic() {
    let mut ok = true;
    // F1: dep line with an opening parenthesis but no closing one
    ok &= case("dep-open-paren", "[[package]]\nname = \"a\"\nsource = \"member\"\ndependencies = [\"(abc\"]\n");
    // F1: dep line whose salt segment is empty after '('
    ok &= case("dep-empty-salt", "[[package]]\nname = \"a\"\nsource = \"member\"\ndependencies = [\"a (\"]\n");
    // F1: salt segment ending in a multi-byte character
    ok &= case("dep-salt-multibyte", "[[package]]\nname = \"a\"\nsource = \"member\"\ndependencies = [\"a (é\"]\n");
    // F1b: git source without '?'
    ok &= case("git-no-question", "[[package]]\nname = \"a\"\nsource = \"git+https://h/r\"\n");
    // F1c: any short malformed source falls through to the registry parser
    ok &= case("short-source", "[[package]]\nname = \"a\"\nsource = \"foo\"\n");
    // F1c: source cut in the middle of a multi-byte character by the fixed-length prefix slice
    ok &= case("multibyte-source", "[[package]]\nname = \"a\"\nsource = \"abcdefghé\"\n");
    // F1c: registry source without '?'
    ok &= case("registry-no-question", "[[package]]\nname = \"a\"\nsource = \"registry+foo\"\n");
    assert!(ok, "some malformed lock file panicked the loader");
}
